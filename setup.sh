#!/bin/bash
# Builds the verification harness offline from files on disk (release for all engines, plus the
# debug build of vchecks that C20 compares against).
set -e
ROOT=$(cd "$(dirname "$0")" && pwd)
export CARGO_NET_OFFLINE=true
export CARGO_TARGET_DIR="${CARGO_TARGET_DIR:-$ROOT/target}"
mkdir -p "$CARGO_TARGET_DIR" "$ROOT/evidence" "$ROOT/replays" "$ROOT/work"
cd "$ROOT/harness"
cargo build --release --offline 2>&1 | tail -3
cargo build -p vchecks --offline 2>&1 | tail -3
