//! Shared plumbing: worker pool, violation sink, evidence / replay / known-findings handling,
//! exit codes (0 held, 1 violation, 2 machinery failure).

use serde_json::{json, Map, Value};
use std::collections::BTreeMap;
use std::path::PathBuf;
use std::sync::atomic::{AtomicUsize, Ordering};
use std::time::Instant;

pub fn verif_root() -> PathBuf {
    if let Ok(r) = std::env::var("VERIF_ROOT") {
        return PathBuf::from(r);
    }
    let cwd = std::env::current_dir().unwrap_or_else(|_| PathBuf::from("/verif"));
    if cwd.join("MANIFEST.json").exists() {
        cwd
    } else {
        PathBuf::from("/verif")
    }
}

pub fn n_workers() -> usize {
    std::env::var("VERIF_WORKERS")
        .ok()
        .and_then(|s| s.parse().ok())
        .unwrap_or_else(|| std::thread::available_parallelism().map(|n| n.get()).unwrap_or(4))
}

/// Runs `f(i)` for every `i in 0..n` on the worker pool (dynamic partition by an atomic counter),
/// folding the per-item results per worker with `merge` and then across workers. Deterministic as
/// long as `merge` is commutative/associative (sums, min-by-rank maps).
pub fn par_fold<R, F, M>(n: usize, init: impl Fn() -> R + Sync, f: F, merge: M) -> R
where
    R: Send,
    F: Fn(usize, &mut R) + Sync,
    M: Fn(&mut R, R),
{
    let next = AtomicUsize::new(0);
    let workers = n_workers().min(n.max(1));
    let mut results: Vec<R> = Vec::new();
    std::thread::scope(|s| {
        let mut hs = Vec::new();
        for _ in 0..workers {
            hs.push(s.spawn(|| {
                let mut acc = init();
                loop {
                    let i = next.fetch_add(1, Ordering::Relaxed);
                    if i >= n {
                        break;
                    }
                    f(i, &mut acc);
                }
                acc
            }));
        }
        for h in hs {
            match h.join() {
                Ok(r) => results.push(r),
                Err(_) => {
                    eprintln!("MACHINERY: worker thread panicked");
                    std::process::exit(2);
                }
            }
        }
    });
    let mut it = results.into_iter();
    let mut acc = it.next().unwrap_or_else(&init);
    for r in it {
        merge(&mut acc, r);
    }
    acc
}

/// Silences the default panic message (the subject is run under `catch_unwind` in several checks).
pub fn silence_panics() {
    std::panic::set_hook(Box::new(|_| {}));
}

#[derive(Clone, Debug)]
pub struct Viol {
    pub count: u64,
    /// Smaller rank = simpler case; the example kept per signature is the one of least rank.
    pub rank: u64,
    pub desc: String,
    pub case: Value,
}

/// Violations grouped by signature. A signature names the failing oracle clause and the specific
/// input class / call site, so that known findings can be matched without hiding other failures.
#[derive(Clone, Debug, Default)]
pub struct VSink {
    pub map: BTreeMap<String, Viol>,
}

impl VSink {
    pub fn new() -> Self {
        Self::default()
    }

    pub fn add(&mut self, sig: &str, rank: u64, mk: impl FnOnce() -> (String, Value)) {
        match self.map.get_mut(sig) {
            Some(v) => {
                v.count += 1;
                if rank < v.rank {
                    let (desc, case) = mk();
                    v.rank = rank;
                    v.desc = desc;
                    v.case = case;
                }
            }
            None => {
                let (desc, case) = mk();
                self.map.insert(sig.to_string(), Viol { count: 1, rank, desc, case });
            }
        }
    }

    pub fn merge(&mut self, other: VSink) {
        for (sig, v) in other.map {
            match self.map.get_mut(&sig) {
                Some(mine) => {
                    mine.count += v.count;
                    if v.rank < mine.rank {
                        mine.rank = v.rank;
                        mine.desc = v.desc;
                        mine.case = v.case;
                    }
                }
                None => {
                    self.map.insert(sig, v);
                }
            }
        }
    }

    pub fn total(&self) -> u64 {
        self.map.values().map(|v| v.count).sum()
    }
}

pub struct Run {
    pub id: String,
    pub tier: String,
    pub seed: i64,
    pub t0: Instant,
}

fn fnv(s: &str) -> u64 {
    let mut h: u64 = 0xcbf29ce484222325;
    for b in s.bytes() {
        h ^= b as u64;
        h = h.wrapping_mul(0x100000001b3);
    }
    h
}

impl Run {
    pub fn start(id: &str, tier: &str) -> Self {
        let seed = std::env::var("VERIF_SEED").ok().and_then(|s| s.parse().ok()).unwrap_or(0);
        eprintln!("[{id}] tier={tier} workers={}", n_workers());
        Run { id: id.to_string(), tier: tier.to_string(), seed, t0: Instant::now() }
    }

    pub fn is_thorough(&self) -> bool {
        self.tier == "thorough"
    }

    /// Loads the committed known-findings file: entries {property, signature, what} (+ entries
    /// with "fixed", which suppress nothing).
    fn known(&self) -> Vec<(String, String)> {
        let p = verif_root().join("known_findings.json");
        let Ok(txt) = std::fs::read_to_string(&p) else {
            return vec![];
        };
        let v: Value = match serde_json::from_str(&txt) {
            Ok(v) => v,
            Err(e) => {
                eprintln!("MACHINERY: known_findings.json unreadable: {e}");
                std::process::exit(2);
            }
        };
        let mut out = vec![];
        if let Some(arr) = v.get("findings").and_then(|a| a.as_array()) {
            for e in arr {
                if e.get("property").and_then(|p| p.as_str()) != Some(self.id.as_str()) {
                    continue;
                }
                if let Some(sig) = e.get("signature").and_then(|s| s.as_str()) {
                    let what = e.get("what").and_then(|s| s.as_str()).unwrap_or("");
                    out.push((sig.to_string(), what.to_string()));
                }
            }
        }
        out
    }

    /// Writes evidence, prints KNOWN-FINDING / VIOLATION lines, exits with the verdict.
    pub fn finish(self, sink: VSink, mut coverage: Map<String, Value>, assumptions: Vec<String>) -> ! {
        let known = self.known();
        let root = verif_root();
        let mut new_violations = 0u64;
        let mut known_hits = 0u64;
        let mut lines: Vec<String> = vec![];
        for (sig, v) in &sink.map {
            if let Some((_, what)) = known.iter().find(|(s, _)| s == sig) {
                known_hits += 1;
                lines.push(format!(
                    "KNOWN-FINDING: property={} signature={} occurrences={} {} | e.g. {}",
                    self.id, sig, v.count, what, v.desc
                ));
                continue;
            }
            new_violations += 1;
            let h = fnv(&format!("{}|{}", sig, v.case));
            let dir = root.join("replays");
            let _ = std::fs::create_dir_all(&dir);
            let path = dir.join(format!("{}-{:016x}.json", self.id, h));
            let body = json!({
                "property": self.id,
                "signature": sig,
                "occurrences_in_run": v.count,
                "description": v.desc,
                "case": v.case,
                "replay_cmd": format!("./check {} --replay {}", self.id, path.display()),
            });
            if let Err(e) = std::fs::write(&path, serde_json::to_string_pretty(&body).unwrap()) {
                eprintln!("MACHINERY: cannot write replay {}: {e}", path.display());
            }
            eprintln!("[{}] violation signature={} occurrences={} :: {}", self.id, sig, v.count, v.desc);
            lines.push(format!("VIOLATION property={} replay={}", self.id, path.display()));
        }
        let wall = self.t0.elapsed().as_secs_f64();
        coverage.insert("known_finding_signatures_hit".into(), json!(known_hits));
        coverage.insert("violation_signatures".into(), json!(sink.map.keys().collect::<Vec<_>>()));
        let ev = json!({
            "property_id": self.id,
            "tier": self.tier,
            "seed": self.seed,
            "level": "model_checking",
            "coverage": Value::Object(coverage),
            "assumptions": assumptions,
            "wall_s": wall,
            "violations": new_violations,
        });
        let evdir = root.join("evidence");
        let _ = std::fs::create_dir_all(&evdir);
        // a worker process of a check that supervises several processes writes its part elsewhere
        let evpath = match std::env::var("VERIF_EVIDENCE_PATH") {
            Ok(p) => std::path::PathBuf::from(p),
            Err(_) => evdir.join(format!("{}.json", self.id)),
        };
        if let Err(e) = std::fs::write(&evpath, serde_json::to_string_pretty(&ev).unwrap()) {
            eprintln!("MACHINERY: cannot write evidence {}: {e}", evpath.display());
            std::process::exit(2);
        }
        for l in &lines {
            println!("{l}");
        }
        eprintln!(
            "[{}] done in {:.1}s: new violation signatures={} known-finding signatures={} evidence={}",
            self.id,
            wall,
            new_violations,
            known_hits,
            evpath.display()
        );
        std::process::exit(if new_violations > 0 { 1 } else { 0 });
    }
}

pub fn machinery_fail(msg: &str) -> ! {
    eprintln!("MACHINERY: {msg}");
    std::process::exit(2);
}

/// Order-insensitive 64-bit digest accumulator for observation sequences.
#[derive(Clone, Copy, Debug, Default, PartialEq, Eq)]
pub struct Digest(pub u64);

impl Digest {
    pub fn push(&mut self, x: u64) {
        let mut h = self.0 ^ x.wrapping_mul(0x9E3779B97F4A7C15);
        h = h.rotate_left(27).wrapping_mul(0x100000001b3);
        self.0 = h;
    }
}

pub fn ulp32(x: f32) -> f32 {
    let x = x.abs();
    if !x.is_finite() {
        return f32::NAN;
    }
    if x == 0.0 {
        return f32::from_bits(1);
    }
    let b = x.to_bits();
    let up = f32::from_bits(b + 1);
    if up.is_finite() {
        up - x
    } else {
        x - f32::from_bits(b - 1)
    }
}

pub fn next_up(x: f32) -> f32 {
    if x.is_nan() || x == f32::INFINITY {
        return x;
    }
    if x == 0.0 {
        return f32::from_bits(1);
    }
    let b = x.to_bits();
    if x > 0.0 {
        f32::from_bits(b + 1)
    } else {
        f32::from_bits(b - 1)
    }
}

pub fn next_down(x: f32) -> f32 {
    -next_up(-x)
}

/// Steps `n` ulps (signed) from x.
pub fn step_ulps(x: f32, n: i32) -> f32 {
    let mut y = x;
    for _ in 0..n.abs() {
        y = if n > 0 { next_up(y) } else { next_down(y) };
    }
    y
}
