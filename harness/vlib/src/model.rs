//! Reference models. Deliberately boring: no index maps, no master keyframe array, f64 arithmetic
//! on the f32 inputs (exact on the dyadic alphabets).

use crate::spec::*;

// ------------------------------------------------------------------------------------------------
// RefTimeScale: the time map exactly as the C03 statement words it.

#[derive(Clone, Copy, Debug, PartialEq)]
pub enum Phase {
    NotStarted,
    /// position, cycle index (0-based), on the reverse pass
    Active { pos: f64, cycle: u64, reversing: bool },
    Ended { pos: f64 },
}

impl Phase {
    pub fn pos(&self) -> f64 {
        match *self {
            Phase::NotStarted => 0.0,
            Phase::Active { pos, .. } => pos,
            Phase::Ended { pos } => pos,
        }
    }
    /// The C10 rule: a substituted start value is in force before the start and on the first
    /// forward pass only.
    pub fn start_override_in_force(&self) -> bool {
        match *self {
            Phase::NotStarted => true,
            Phase::Active { cycle, reversing, .. } => cycle == 0 && !reversing,
            Phase::Ended { .. } => false,
        }
    }
}

pub fn ref_phase(tm: &Timing, t: f32) -> Phase {
    ref_phase64(tm, t as f64)
}

pub fn ref_phase64(tm: &Timing, t: f64) -> Phase {
    let cycle = tm.cycle as f64;
    let td = t - tm.delay as f64;
    if td < 0.0 {
        return Phase::NotStarted;
    }
    if let Some(c) = tm.rep.cycles() {
        if td > cycle * c {
            return Phase::Ended { pos: if tm.reverse { 0.0 } else { 1.0 } };
        }
    }
    // Which cycle: instants that are an exact multiple of the cycle (after the first) belong to the
    // *end* of the cycle just completed, so that the 100% value is shown before wrapping.
    // fmod is exact in IEEE arithmetic; the cycle count is recovered from the exact remainder.
    let r = td % cycle;
    let q = ((td - r) / cycle).round();
    let (cyc, ratio) = if r == 0.0 && q >= 1.0 { (q - 1.0, 1.0) } else { (q, r / cycle) };
    let (pos, reversing) = if tm.reverse {
        if ratio > 0.5 {
            ((1.0 - ratio) * 2.0, true)
        } else {
            (ratio * 2.0, false)
        }
    } else {
        (ratio, false)
    };
    Phase::Active { pos, cycle: cyc as u64, reversing }
}

// ------------------------------------------------------------------------------------------------
// RefCss: per-property keyframe lists.

#[derive(Clone, Debug, Default)]
pub struct RefProp {
    /// (position, value, easing in force from this keyframe on), position order, stable for ties;
    /// includes the synthetic 0% frame when no keyframe defines the property at 0% and the
    /// implicit 100% frame (last defined value) when none defines it at 100%.
    pub frames: Vec<(f64, f64, u8)>,
    /// true if two defining keyframes share position 0 (start override then has no defined meaning)
    pub dup_at_zero: bool,
    /// max |value| over frames (for tolerances)
    pub scale: f64,
}

#[derive(Clone, Copy, Debug, PartialEq)]
pub enum RV {
    Untouched,
    Val(f64),
    /// position coincides with two or more keyframes defining the property: no defined value
    Ambiguous,
}

impl RefProp {
    pub fn build(kfs_sorted: &[&Kf], get: impl Fn(&Kf) -> Option<f64>, default_easing: u8) -> RefProp {
        let mut frames: Vec<(f64, f64, u8)> = vec![];
        let mut easing = default_easing;
        for kf in kfs_sorted {
            if let Some(v) = get(kf) {
                if let Some(e) = kf.easing {
                    easing = e;
                }
                if frames.is_empty() && kf.pos > 0.0 {
                    frames.push((0.0, 0.0, default_easing));
                }
                frames.push((kf.pos as f64, v, easing));
            }
        }
        // Implicit 100% frame: the last defined value is held until the end (and is the "next
        // keyframe" a substituted start value blends towards when there is no other).
        if let Some(&(p, v, e)) = frames.last() {
            if p < 1.0 {
                frames.push((1.0, v, e));
            }
        }
        let dup_at_zero = frames.len() >= 2 && frames[0].0 == 0.0 && frames[1].0 == 0.0;
        let scale = frames.iter().fold(0.0f64, |m, f| m.max(f.1.abs()));
        RefProp { frames, dup_at_zero, scale }
    }

    pub fn defined(&self) -> bool {
        !self.frames.is_empty()
    }

    /// Value at position q in [0,1]; `start` replaces the value of the 0% frame.
    pub fn eval(&self, q: f64, start: Option<f64>) -> RV {
        let n = self.frames.len();
        if n == 0 {
            return RV::Untouched;
        }
        let val = |i: usize| -> f64 {
            if i == 0 {
                start.unwrap_or(self.frames[0].1)
            } else {
                self.frames[i].1
            }
        };
        // frames are in position order: binary search (the wide families have up to 2^17+1 frames)
        let lo = self.frames.partition_point(|f| f.0 < q);
        let hi = self.frames.partition_point(|f| f.0 <= q);
        // coincidence with more than one keyframe
        if hi - lo >= 2 {
            return RV::Ambiguous;
        }
        // last frame with pos <= q
        let i = hi.saturating_sub(1);
        if i == n - 1 {
            return RV::Val(val(i)); // hold
        }
        let (p0, _, e) = self.frames[i];
        let p1 = self.frames[i + 1].0;
        let frac = (q - p0) / (p1 - p0);
        let y = model_ease(e, frac);
        let (v0, v1) = (val(i), val(i + 1));
        RV::Val(v0 + (v1 - v0) * y)
    }

    /// True if q lies strictly between two distinct defining positions with different values
    /// (the result really depends on interpolation).
    pub fn interpolating_at(&self, q: f64) -> bool {
        // the only candidate segment ends at the first frame with position >= q
        let j = self.frames.partition_point(|f| f.0 < q);
        if j == 0 || j >= self.frames.len() {
            return false;
        }
        // frames before j have pos < q; frame j has pos >= q; with repeated positions the segment that
        // contains q is (j-1, j)
        let (w0, w1) = (self.frames[j - 1], self.frames[j]);
        w0.0 < q && q < w1.0 && w0.1 != w1.1
    }

    /// Position of the property's second frame (end of the stretch a start value can influence).
    pub fn second_pos(&self) -> Option<f64> {
        self.frames.get(1).map(|f| f.0)
    }
}

#[derive(Clone, Debug)]
pub struct RefTl {
    pub a: RefProp,
    pub k: RefProp,
    pub d: RefProp,
    pub timing: Timing,
    pub empty: bool,
}

#[derive(Clone, Copy, Debug, PartialEq)]
pub struct RefOut {
    pub a: RV,
    pub k: RV,
    pub d: RV,
}

impl RefTl {
    pub fn new(spec: &TlSpec) -> RefTl {
        let mut sorted: Vec<&Kf> = spec.kfs.iter().collect();
        sorted.sort_by(|x, y| x.pos.total_cmp(&y.pos)); // stable
        RefTl {
            a: RefProp::build(&sorted, |k| k.a.map(|v| v as f64), spec.default_easing),
            k: RefProp::build(&sorted, |k| k.k.map(|v| v as f64), spec.default_easing),
            d: RefProp::build(&sorted, |k| k.d, spec.default_easing),
            timing: spec.timing,
            empty: spec.kfs.is_empty(),
        }
    }

    pub fn eval_phase(&self, ph: &Phase, start: Option<&P>) -> RefOut {
        if self.empty {
            return RefOut { a: RV::Untouched, k: RV::Untouched, d: RV::Untouched };
        }
        let ov = ph.start_override_in_force();
        let q = ph.pos();
        RefOut {
            a: self.a.eval(q, if ov { start.map(|s| s.a as f64) } else { None }),
            k: self.k.eval(q, if ov { start.map(|s| s.k as f64) } else { None }),
            d: self.d.eval(q, if ov { start.map(|s| s.d as f32 as f64) } else { None }),
        }
    }

    pub fn eval(&self, t: f32, start: Option<&P>) -> RefOut {
        self.eval_phase(&ref_phase(&self.timing, t), start)
    }

    /// Terminal values (what the timeline rests at after the end), None if infinite.
    pub fn terminal(&self) -> Option<RefOut> {
        self.timing.total()?;
        let ph = Phase::Ended { pos: if self.timing.reverse { 0.0 } else { 1.0 } };
        Some(self.eval_phase(&ph, None))
    }
}

/// Absolute tolerance for comparing an f32 implementation result with the f64 reference:
/// 8 ulp32(scale) + slope * 8 ulp32(1) * span, slope bound 8 for every easing in the alphabet.
pub fn tol(scale: f64, span: f64) -> f64 {
    let ulp_scale = if scale == 0.0 { 0.0 } else { (crate::util::ulp32(scale as f32) as f64).max(1.2e-7 * scale) };
    8.0 * ulp_scale + 8.0 * 8.0 * 1.1920929e-7 * span + 1e-30
}

/// Compare an implementation float against an RV. Returns Ok(()) or Err(description).
pub fn cmp_float(name: &str, got: f64, before_bits_equal: bool, rv: RV, scale: f64, int: bool) -> Result<(), String> {
    match rv {
        RV::Ambiguous => Ok(()),
        RV::Untouched => {
            if before_bits_equal {
                Ok(())
            } else {
                Err(format!("{name}: modified although the timeline does not animate it (got {got})"))
            }
        }
        RV::Val(want) => {
            let t = tol(scale.max(want.abs()), 2.0 * scale.max(want.abs())) + if int { 0.5 } else { 0.0 };
            if (got - want).abs() <= t && got.is_finite() {
                Ok(())
            } else {
                Err(format!("{name}: got {got}, reference {want} (tolerance {t:.3e})"))
            }
        }
    }
}
