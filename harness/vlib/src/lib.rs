pub mod model;
pub mod spec;
pub mod util;
