//! Input alphabets: the animated struct `P`, timeline specifications, builders onto the real API,
//! enumerators for the bounded spaces T(n), timing configurations and time grids.

use mina::prelude::*;
use mina::EasingFunction;
use serde_json::{json, Value};

/// The struct every timeline check animates. `a`, `k`, `d` are keyframed by the alphabets, `u` is
/// `#[animate]` but never keyframed, `z` is excluded from animation.
#[derive(Animate, Clone, Debug, Default, PartialEq)]
pub struct P {
    #[animate]
    pub a: f32,
    #[animate]
    pub k: i32,
    #[animate]
    pub d: f64,
    #[animate]
    pub u: f32,
    pub z: f32,
}

impl P {
    pub fn bits(&self) -> [u64; 5] {
        [
            self.a.to_bits() as u64,
            self.k as u32 as u64,
            self.d.to_bits(),
            self.u.to_bits() as u64,
            self.z.to_bits() as u64,
        ]
    }
    pub fn sentinel() -> P {
        // NaN payloads for floats (bit-compared), odd integer.
        P {
            a: f32::from_bits(0x7fc1_2345),
            k: -7_654_321,
            d: f64::from_bits(0x7ff8_0000_dead_beef),
            u: f32::from_bits(0x7fc5_4321),
            z: f32::from_bits(0x7fc0_0bad),
        }
    }
    pub fn to_json(&self) -> Value {
        json!({"a": fj(self.a), "k": self.k, "d": fj64(self.d), "u": fj(self.u), "z": fj(self.z)})
    }
    pub fn from_json(v: &Value) -> P {
        P {
            a: jf(&v["a"]),
            k: v["k"].as_i64().unwrap_or(0) as i32,
            d: jf64(&v["d"]),
            u: jf(&v["u"]),
            z: jf(&v["z"]),
        }
    }
}

/// f32 → JSON keeping the exact bits recoverable (finite values are printed as numbers, others and
/// all values additionally as bit strings when needed).
pub fn fj(x: f32) -> Value {
    if x.is_finite() {
        json!(x as f64)
    } else {
        json!(format!("bits:{:08x}", x.to_bits()))
    }
}
pub fn fj64(x: f64) -> Value {
    if x.is_finite() {
        json!(x)
    } else {
        json!(format!("bits:{:016x}", x.to_bits()))
    }
}
pub fn jf(v: &Value) -> f32 {
    if let Some(s) = v.as_str() {
        if let Some(h) = s.strip_prefix("bits:") {
            return f32::from_bits(u32::from_str_radix(h, 16).unwrap_or(0));
        }
    }
    v.as_f64().unwrap_or(0.0) as f32
}
pub fn jf64(v: &Value) -> f64 {
    if let Some(s) = v.as_str() {
        if let Some(h) = s.strip_prefix("bits:") {
            return f64::from_bits(u64::from_str_radix(h, 16).unwrap_or(0));
        }
    }
    v.as_f64().unwrap_or(0.0)
}

// ------------------------------------------------------------------------------------------------
// Easing alphabet

#[derive(Clone, Debug)]
pub struct PolyEasing(pub u8);

impl EasingFunction for PolyEasing {
    fn calc(&self, x: f32) -> f32 {
        match self.0 {
            1 => x * x,
            2 => 1.0 - (1.0 - x) * (1.0 - x),
            // deliberately NOT anchored at (0,0)/(1,1): a custom easing is used as given
            3 => 0.25 + 0.5 * x,
            4 => 1.0,
            _ => 4.0 * x * (1.0 - x),
        }
    }
}

pub const EASE_NAMES: [&str; 8] =
    ["Linear", "Custom(x^2)", "Custom(1-(1-x)^2)", "OutBack", "Ease", "InOutCubic", "InQuad", "OutExpo"];

pub fn real_easing(id: u8) -> Easing {
    match id {
        0 => Easing::Linear,
        1 => Easing::Custom(Box::new(PolyEasing(1))),
        2 => Easing::Custom(Box::new(PolyEasing(2))),
        3 => Easing::OutBack,
        4 => Easing::Ease,
        5 => Easing::InOutCubic,
        6 => Easing::InQuad,
        7 => Easing::OutExpo,
        _ => panic!("easing id"),
    }
}

/// The model's own easing evaluation: Linear and the polynomial customs are computed here in f64;
/// built-in Bezier easings call the real `Easing::calc` (decided separately by C13).
pub fn model_ease(id: u8, x: f64) -> f64 {
    match id {
        0 => x,
        1 => x * x,
        2 => 1.0 - (1.0 - x) * (1.0 - x),
        _ => real_easing(id).calc(x as f32) as f64,
    }
}

// ------------------------------------------------------------------------------------------------
// Specifications

#[derive(Clone, Debug, PartialEq)]
pub struct Kf {
    pub pos: f32,
    pub a: Option<f32>,
    pub k: Option<i32>,
    pub d: Option<f64>,
    pub easing: Option<u8>,
}

impl Kf {
    pub fn to_json(&self) -> Value {
        json!({"pos": fj(self.pos), "a": self.a.map(fj), "k": self.k, "d": self.d.map(fj64),
               "easing": self.easing.map(|e| EASE_NAMES[e as usize]), "easing_id": self.easing})
    }
    pub fn from_json(v: &Value) -> Kf {
        Kf {
            pos: jf(&v["pos"]),
            a: if v["a"].is_null() { None } else { Some(jf(&v["a"])) },
            k: v["k"].as_i64().map(|x| x as i32),
            d: if v["d"].is_null() { None } else { Some(jf64(&v["d"])) },
            easing: v["easing_id"].as_u64().map(|x| x as u8),
        }
    }
}

#[derive(Clone, Copy, Debug, PartialEq)]
pub enum Rep {
    None,
    Times(u32),
    Infinite,
}

impl Rep {
    pub fn real(self) -> Repeat {
        match self {
            Rep::None => Repeat::None,
            Rep::Times(n) => Repeat::Times(n),
            Rep::Infinite => Repeat::Infinite,
        }
    }
    /// Number of cycles played (None for infinite).
    pub fn cycles(self) -> Option<f64> {
        match self {
            Rep::None => Some(1.0),
            Rep::Times(n) => Some(n as f64 + 1.0),
            Rep::Infinite => None,
        }
    }
    pub fn to_json(self) -> Value {
        match self {
            Rep::None => json!("None"),
            Rep::Times(n) => json!({"Times": n}),
            Rep::Infinite => json!("Infinite"),
        }
    }
    pub fn from_json(v: &Value) -> Rep {
        if let Some(s) = v.as_str() {
            if s == "Infinite" {
                return Rep::Infinite;
            }
            return Rep::None;
        }
        Rep::Times(v["Times"].as_u64().unwrap_or(0) as u32)
    }
}

#[derive(Clone, Copy, Debug, PartialEq)]
pub struct Timing {
    pub cycle: f32,
    pub delay: f32,
    pub rep: Rep,
    pub reverse: bool,
}

impl Timing {
    pub const fn new(cycle: f32, delay: f32, rep: Rep, reverse: bool) -> Self {
        Timing { cycle, delay, rep, reverse }
    }
    /// Exact total duration delay + cycle*(repeats+1) in f64; None if infinite.
    pub fn total(&self) -> Option<f64> {
        self.rep.cycles().map(|c| self.delay as f64 + self.cycle as f64 * c)
    }
    pub fn to_json(&self) -> Value {
        json!({"cycle": fj(self.cycle), "delay": fj(self.delay), "repeat": self.rep.to_json(), "reverse": self.reverse})
    }
    pub fn from_json(v: &Value) -> Timing {
        Timing {
            cycle: jf(&v["cycle"]),
            delay: jf(&v["delay"]),
            rep: Rep::from_json(&v["repeat"]),
            reverse: v["reverse"].as_bool().unwrap_or(false),
        }
    }
    pub fn real(&self) -> mina::TimeScale {
        mina::TimeScale::new(self.cycle, self.delay, self.rep.real(), self.reverse)
    }
}

#[derive(Clone, Debug, PartialEq)]
pub struct TlSpec {
    /// Keyframes in *insertion* order.
    pub kfs: Vec<Kf>,
    pub default_easing: u8,
    pub timing: Timing,
}

impl TlSpec {
    pub fn to_json(&self) -> Value {
        json!({"keyframes_in_insertion_order": self.kfs.iter().map(|k| k.to_json()).collect::<Vec<_>>(),
               "default_easing": EASE_NAMES[self.default_easing as usize], "default_easing_id": self.default_easing,
               "timing": self.timing.to_json()})
    }
    pub fn from_json(v: &Value) -> TlSpec {
        TlSpec {
            kfs: v["keyframes_in_insertion_order"].as_array().map(|a| a.iter().map(Kf::from_json).collect()).unwrap_or_default(),
            default_easing: v["default_easing_id"].as_u64().unwrap_or(0) as u8,
            timing: Timing::from_json(&v["timing"]),
        }
    }

    /// Builds the real timeline through the derive-generated builder API.
    pub fn build(&self) -> PTimeline {
        self.builder().build()
    }

    pub fn builder(&self) -> TimelineConfiguration<PKeyframeData> {
        self.builder_ordered(0)
    }

    /// The same configuration with the setters called in a different place relative to the keyframes:
    /// 0 = all settings first (the usual way), 1 = all keyframes first, then the settings, 2 = the first keyframe,
    /// then the settings, then the remaining keyframes, 3 = keyframes first, settings in reverse order, and the
    /// default easing set twice (a wrong one first).
    pub fn builder_ordered(&self, mode: u8) -> TimelineConfiguration<PKeyframeData> {
        let settings = |b: TimelineConfiguration<PKeyframeData>, reverse_order: bool| {
            if reverse_order {
                b.default_easing(real_easing(if self.default_easing == 0 { 3 } else { 0 }))
                    .default_easing(real_easing(self.default_easing))
                    .reverse(self.timing.reverse)
                    .repeat(self.timing.rep.real())
                    .delay_seconds(self.timing.delay)
                    .duration_seconds(self.timing.cycle)
            } else {
                b.duration_seconds(self.timing.cycle)
                    .delay_seconds(self.timing.delay)
                    .repeat(self.timing.rep.real())
                    .reverse(self.timing.reverse)
                    .default_easing(real_easing(self.default_easing))
            }
        };
        let kfb = |kf: &Kf| {
            let mut kb = P::keyframe(kf.pos);
            if let Some(a) = kf.a {
                kb = kb.a(a);
            }
            if let Some(k) = kf.k {
                kb = kb.k(k);
            }
            if let Some(d) = kf.d {
                kb = kb.d(d);
            }
            if let Some(e) = kf.easing {
                kb = kb.easing(real_easing(e));
            }
            kb
        };
        let mut b = P::timeline();
        if mode == 0 {
            b = settings(b, false);
        }
        for (i, kf) in self.kfs.iter().enumerate() {
            b = b.keyframe(kfb(kf));
            if mode == 2 && i == 0 {
                b = settings(b, false);
            }
        }
        if mode == 1 || mode == 3 || (mode == 2 && self.kfs.is_empty()) {
            b = settings(b, mode == 3);
        }
        b
    }

    /// Rust source of a plain test body that rebuilds this timeline with the public API.
    pub fn rust_source(&self) -> String {
        let mut s = String::from("P::timeline()");
        s += &format!(".duration_seconds({:?}).delay_seconds({:?})", self.timing.cycle, self.timing.delay);
        s += &match self.timing.rep {
            Rep::None => String::new(),
            Rep::Times(n) => format!(".repeat(Repeat::Times({n}))"),
            Rep::Infinite => ".repeat(Repeat::Infinite)".into(),
        };
        if self.timing.reverse {
            s += ".reverse(true)";
        }
        s += &format!(".default_easing(/*{}*/ e({}))", EASE_NAMES[self.default_easing as usize], self.default_easing);
        for kf in &self.kfs {
            s += &format!("\n    .keyframe(P::keyframe({:?})", kf.pos);
            if let Some(a) = kf.a {
                s += &format!(".a({a:?})");
            }
            if let Some(k) = kf.k {
                s += &format!(".k({k})");
            }
            if let Some(d) = kf.d {
                s += &format!(".d({d:?})");
            }
            if let Some(e) = kf.easing {
                s += &format!(".easing(/*{}*/ e({}))", EASE_NAMES[e as usize], e);
            }
            s += ")";
        }
        s += "\n    .build()";
        s
    }
}

// ------------------------------------------------------------------------------------------------
// Enumerators

pub const GRID5: [f32; 5] = [0.0, 0.25, 0.5, 0.75, 1.0];
pub const A_VALUES: [f32; 6] = [-64.0, 16.0, 96.0, 400.0, -8.0, 200.0];
pub const K_VALUES: [i32; 6] = [-100, 7, 250, -31, 1000, 64];

/// Theta: the six timing configurations of the design (all dyadic).
pub fn theta() -> Vec<Timing> {
    vec![
        Timing::new(1.0, 0.0, Rep::None, false),
        Timing::new(2.0, 0.5, Rep::None, false),
        Timing::new(1.0, 0.0, Rep::Times(2), false),
        Timing::new(2.0, 0.5, Rep::Times(1), true),
        Timing::new(1.0, 0.25, Rep::Infinite, true),
        Timing::new(4.0, 0.0, Rep::None, true),
    ]
}

/// Theta+ : Theta plus repeat/reverse variety (C10) and Times(0)/Times(3) (C02).
pub fn theta_plus() -> Vec<Timing> {
    let mut v = theta();
    v.extend([
        Timing::new(1.0, 0.5, Rep::Times(1), false),
        Timing::new(1.0, 0.0, Rep::Times(2), true),
        Timing::new(2.0, 0.0, Rep::Infinite, false),
        Timing::new(1.0, 0.5, Rep::Infinite, false),
        Timing::new(1.0, 0.0, Rep::Times(0), false),
        Timing::new(0.5, 0.25, Rep::Times(3), true),
        Timing::new(1.0, 0.0, Rep::Times(3), false),
        // a single reversing cycle written as Times(0), delayed
        Timing::new(1.0, 0.25, Rep::Times(0), true),
    ]);
    v
}

/// tau(theta): time grid spanning all phases; `sub` = subdivisions per cycle (32 in the design).
pub fn tau(t: &Timing, sub: u32) -> Vec<f32> {
    // incl. negative zero and a negative time (finite times like any other)
    let mut v = vec![0.0, -0.0, -0.25, t.delay / 2.0, t.delay];
    let cycles = match t.rep {
        Rep::None => 1,
        Rep::Times(n) => (n + 1).min(3),
        Rep::Infinite => 3,
    };
    let n = sub * cycles + sub / 4;
    for j in 0..=n {
        v.push(t.delay + t.cycle * (j as f32) / (sub as f32));
    }
    if let Some(total) = t.total() {
        let total = total as f32;
        v.extend([total, total + 1.0 / 512.0, total * 2.0 + 1.0]);
    }
    v.extend([1.0e6, f32::MAX]);
    v.sort_by(|a, b| a.total_cmp(b));
    v.dedup_by(|a, b| a.to_bits() == b.to_bits()); // keeps both zeros
    v
}

/// Iterates all keyframe multisets of size exactly `n` over `grid` (ascending positions), each
/// keyframe with a property subset in {none,{a},{k},{a,k}} and an easing in {none,e1,e2}.
/// Values depend on the keyframe's index in the list so that consecutive values differ widely.
/// Calls `f(index, &kfs)`; returns the number of keyframe lists.
pub fn count_t(n: usize, grid_len: usize) -> u64 {
    // multisets(grid_len, n) * 12^n
    let mut c: u64 = 1;
    for i in 0..n as u64 {
        c = c * (grid_len as u64 + i) / (i + 1);
    }
    c * 12u64.pow(n as u32)
}

/// Decodes the `idx`-th element of T(exactly n) — mixed radix: multiset rank, then per-keyframe
/// 12-way choice. `e1`/`e2` are the easing ids offered per keyframe.
pub fn decode_t(n: usize, grid: &[f32], mut idx: u64, e1: u8, e2: u8, distinct_per_prop: bool) -> Option<Vec<Kf>> {
    let per = 12u64.pow(n as u32);
    let mut ms = idx / per;
    idx %= per;
    // unrank multiset: enumerate non-decreasing index sequences lexicographically
    let g = grid.len();
    let mut posidx = Vec::with_capacity(n);
    let mut lo = 0usize;
    for slot in 0..n {
        let remaining = n - slot - 1;
        let mut chosen = None;
        for p in lo..g {
            // number of multisets of size `remaining` over positions p..g
            let cnt = multiset_count(g - p, remaining);
            if ms < cnt {
                chosen = Some(p);
                break;
            }
            ms -= cnt;
        }
        let p = chosen?;
        posidx.push(p);
        lo = p;
    }
    let mut kfs = Vec::with_capacity(n);
    for (i, &p) in posidx.iter().enumerate() {
        let c = idx % 12;
        idx /= 12;
        let subset = c % 4;
        let e = c / 4;
        kfs.push(Kf {
            pos: grid[p],
            a: if subset & 1 != 0 { Some(A_VALUES[i % A_VALUES.len()]) } else { None },
            k: if subset & 2 != 0 { Some(K_VALUES[i % K_VALUES.len()]) } else { None },
            d: None,
            easing: match e {
                0 => None,
                1 => Some(e1),
                _ => Some(e2),
            },
        });
    }
    if distinct_per_prop {
        for i in 1..kfs.len() {
            for j in 0..i {
                if kfs[i].pos == kfs[j].pos && ((kfs[i].a.is_some() && kfs[j].a.is_some()) || (kfs[i].k.is_some() && kfs[j].k.is_some())) {
                    return None;
                }
            }
        }
    }
    Some(kfs)
}

fn multiset_count(g: usize, n: usize) -> u64 {
    if n == 0 {
        return 1;
    }
    if g == 0 {
        return 0;
    }
    let mut c: u64 = 1;
    for i in 0..n as u64 {
        c = c * (g as u64 + i) / (i + 1);
    }
    c
}

/// All permutations of 0..n in lexicographic order.
pub fn permutations(n: usize) -> Vec<Vec<usize>> {
    fn rec(cur: &mut Vec<usize>, used: &mut Vec<bool>, n: usize, out: &mut Vec<Vec<usize>>) {
        if cur.len() == n {
            out.push(cur.clone());
            return;
        }
        for i in 0..n {
            if !used[i] {
                used[i] = true;
                cur.push(i);
                rec(cur, used, n, out);
                cur.pop();
                used[i] = false;
            }
        }
    }
    let mut out = vec![];
    rec(&mut vec![], &mut vec![false; n], n, &mut out);
    out
}

// ------------------------------------------------------------------------------------------------
// Animator state alphabet: two animated candidates and two un-animated states.

#[derive(Clone, Copy, Debug, Default, PartialEq, Eq, Hash, State)]
pub enum S4 {
    #[default]
    X,
    Y,
    U1,
    U2,
}

pub const S4_ALL: [S4; 4] = [S4::X, S4::Y, S4::U1, S4::U2];

/// A second animated struct whose markers are surrounded by the syntactic noise real code has:
/// doc comments and other attributes before `#[animate]`, and un-marked fields that are themselves
/// `Lerp`-able (so that wrongly treating them as animated still compiles).
#[derive(Animate, Clone, Debug, Default, PartialEq)]
pub struct P2 {
    /// Documented and animated.
    #[animate]
    pub a: f32,
    #[allow(dead_code)]
    #[animate]
    pub k: i32,
    /// Documented, not animated.
    pub z: f32,
    pub w: u8,
}

/// The same field layout as a *remote* proxy: the animation API hangs off `R3Proxy`, the animated values
/// are `R3`. Only some fields carry the marker; the un-marked ones are `Lerp`-able.
#[derive(Clone, Debug, Default, PartialEq)]
pub struct R3 {
    pub a: f32,
    pub k: i32,
    pub z: f32,
    pub w: u8,
}

#[allow(dead_code)]
#[derive(Animate)]
#[animate(remote = "R3")]
pub struct R3Proxy {
    #[animate]
    a: f32,
    #[animate]
    k: i32,
    z: f32,
    w: u8,
}

// ------------------------------------------------------------------------------------------------
// Plain unit-test sources for replay artefacts (no explorer, public API only)

/// Common header of a generated replay test: the animated struct, the easing alphabet.
pub const UNIT_TEST_HEADER: &str = r#"// Replay of a verification case with the public API only. Save as <mina>/tests/replay_case.rs and run
//   cargo test --offline --test replay_case -- --nocapture
use mina::prelude::*;
use mina::EasingFunction;

#[derive(Animate, Clone, Debug, Default, PartialEq)]
struct P { #[animate] a: f32, #[animate] k: i32, #[animate] d: f64, #[animate] u: f32, z: f32 }

#[derive(Clone, Debug)]
struct Poly(u8);
impl EasingFunction for Poly {
    fn calc(&self, x: f32) -> f32 { match self.0 { 1 => x * x, 2 => 1.0 - (1.0 - x) * (1.0 - x), 3 => 0.25 + 0.5 * x, 4 => 1.0, _ => 4.0 * x * (1.0 - x) } }
}
fn e(id: u8) -> Easing {
    match id { 0 => Easing::Linear, 1 => Easing::Custom(Box::new(Poly(1))), 2 => Easing::Custom(Box::new(Poly(2))), 3 => Easing::OutBack,
               4 => Easing::Ease, 5 => Easing::InOutCubic, 6 => Easing::InQuad, _ => Easing::OutExpo }
}
fn p(a: u32, k: i32, d: u64, u: u32, z: u32) -> P { P { a: f32::from_bits(a), k, d: f64::from_bits(d), u: f32::from_bits(u), z: f32::from_bits(z) } }
"#;

impl P {
    /// Bit-exact Rust expression for this value (uses the helper `p` of the test header).
    pub fn rust_expr(&self) -> String {
        format!("p(0x{:08x}, {}, 0x{:016x}, 0x{:08x}, 0x{:08x}) /* {:?} */", self.a.to_bits(), self.k, self.d.to_bits(), self.u.to_bits(), self.z.to_bits(), self)
    }
}

/// A complete test that builds the timeline, optionally substitutes a start value, evaluates at `t` into
/// `init`, prints the result and runs the given assertion lines (which may refer to `got` and `before`).
pub fn timeline_unit_test(spec: &TlSpec, start: Option<&P>, t: f32, init: &P, asserts: &[String]) -> String {
    let mut s = String::from(UNIT_TEST_HEADER);
    s += "\n#[test]\nfn replay_case() {\n";
    s += &format!("    let mut tl = {};\n", spec.rust_source().replace('\n', "\n    "));
    if let Some(st) = start {
        s += &format!("    tl.start_with(&{});\n", st.rust_expr());
    }
    s += &format!("    let before = {};\n    let mut got = before.clone();\n    tl.update(&mut got, f32::from_bits(0x{:08x})); // t = {:?}\n", init.rust_expr(), t.to_bits(), t);
    s += "    println!(\"{:?}\", got);\n    let _ = &tl;\n";
    for a in asserts {
        s += &format!("    {a}\n");
    }
    s += "}\n";
    s
}
