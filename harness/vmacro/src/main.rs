extern crate proc_macro;

// The included macro sources refer to each other through `crate::fn_timeline`.
pub use expand::fn_timeline_src as fn_timeline;

mod c15;
mod c16;
mod c17;
mod expand;
mod genrun;
mod gt;
mod norm;

use vlib::util::*;

fn main() {
    let args: Vec<String> = std::env::args().skip(1).collect();
    if args.is_empty() {
        machinery_fail("usage: vmacro <id> [quick|thorough] [--replay <file>]");
    }
    match args[0].as_str() {
        "expand-timeline" => return println!("{:?}", expand::expand_timeline(&args[1]).map(|t| t.to_string())),
        "expand-animator" => return println!("{:?}", expand::expand_animator(&args[1]).map(|t| t.to_string())),
        "expand-derive" => return println!("{:?}", expand::expand_derive(&args[1]).map(|t| t.to_string())),
        _ => {}
    }
    let id = args[0].to_uppercase();
    let mut tier = std::env::var("VERIF_TIER").unwrap_or_else(|_| "quick".into());
    let mut replay: Option<String> = None;
    let mut i = 1;
    while i < args.len() {
        match args[i].as_str() {
            "quick" | "thorough" => tier = args[i].clone(),
            "--replay" => {
                i += 1;
                replay = Some(args[i].clone());
            }
            other => machinery_fail(&format!("unknown argument {other}")),
        }
        i += 1;
    }
    if let Some(path) = replay {
        let txt = std::fs::read_to_string(&path).unwrap_or_else(|e| machinery_fail(&format!("read {path}: {e}")));
        let v: serde_json::Value = serde_json::from_str(&txt).unwrap_or_else(|e| machinery_fail(&format!("parse {path}: {e}")));
        let ok = match id.as_str() {
            "C15" => c15::replay(&v["case"]),
            "C16" => c16::replay(&v["case"]),
            "C17" => c17::replay(&v["case"]),
            _ => machinery_fail("no replay for this id"),
        };
        if ok {
            println!("replay: property holds on this case");
            std::process::exit(0);
        }
        println!("VIOLATION property={id} replay={path}");
        std::process::exit(1);
    }
    let run = Run::start(&id, &tier);
    match id.as_str() {
        "C15" => c15::run(run),
        "C16" => c16::run(run),
        "C17" => c17::run(run),
        _ => machinery_fail("unknown property id"),
    }
}
