//! In-process entry points to the three real macro implementations: the source files of
//! /repo/macros are included textually (a proc-macro crate cannot export functions), so the code
//! explored here IS the code of the working tree.

#[allow(dead_code, unused_imports, unexpected_cfgs, clippy::all)]
pub mod fn_timeline_src {
    include!("/repo/macros/src/fn_timeline.rs");

    pub fn verif_expand(ts: proc_macro2::TokenStream) -> syn::Result<proc_macro2::TokenStream> {
        expand_timeline(syn::parse2::<TimelineInput>(ts)?)
    }
}

#[allow(dead_code, unused_imports, unexpected_cfgs, clippy::all)]
pub mod fn_animator_src {
    include!("/repo/macros/src/fn_animator.rs");

    pub fn verif_expand(ts: proc_macro2::TokenStream) -> syn::Result<proc_macro2::TokenStream> {
        expand_animator(syn::parse2::<AnimatorInput>(ts)?)
    }
}

#[allow(dead_code, unused_imports, unexpected_cfgs, clippy::all)]
pub mod derive_animate_src {
    include!("/repo/macros/src/derive_animate.rs");

    pub fn verif_expand(ts: proc_macro2::TokenStream) -> syn::Result<proc_macro2::TokenStream> {
        expand_animate(syn::parse2::<DeriveInput>(ts)?)
    }
}

pub fn expand_timeline(src: &str) -> Result<proc_macro2::TokenStream, String> {
    let ts: proc_macro2::TokenStream = src.parse().map_err(|e| format!("lex: {e}"))?;
    fn_timeline_src::verif_expand(ts).map_err(|e| e.to_string())
}

pub fn expand_animator(src: &str) -> Result<proc_macro2::TokenStream, String> {
    let ts: proc_macro2::TokenStream = src.parse().map_err(|e| format!("lex: {e}"))?;
    fn_animator_src::verif_expand(ts).map_err(|e| e.to_string())
}

pub fn expand_derive(src: &str) -> Result<proc_macro2::TokenStream, String> {
    let ts: proc_macro2::TokenStream = src.parse().map_err(|e| format!("lex: {e}"))?;
    derive_animate_src::verif_expand(ts).map_err(|e| e.to_string())
}
