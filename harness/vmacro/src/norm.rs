//! Normalises an expansion (token stream of builder calls) into a *builder program* that can be
//! compared structurally with the documented reading of the sentence.

use quote::ToTokens;
use syn::{Expr, ExprMethodCall, Lit};

#[derive(Clone, Debug, PartialEq)]
pub enum RepN {
    Times(u32),
    Infinite,
}

#[derive(Clone, Debug, PartialEq)]
pub enum KfBody {
    /// (field, expression tokens)
    Fields(Vec<(String, String)>),
    /// `.values_from(pos, &default_values)`
    Default(f32),
}

#[derive(Clone, Debug, PartialEq)]
pub struct KfN {
    pub target: String,
    pub pos: f32,
    pub body: KfBody,
}

#[derive(Clone, Debug, PartialEq, Default)]
pub struct TlN {
    pub target: String,
    pub duration: Option<f32>,
    pub delay: Option<f32>,
    pub easing: Option<String>,
    pub repeat: Option<RepN>,
    pub reverse: Option<bool>,
    pub keyframes: Vec<KfN>,
}

#[derive(Clone, Debug, PartialEq)]
pub enum TlOrMerged {
    Single(TlN),
    Merged(Vec<TlN>),
}

fn toks<T: ToTokens>(t: &T) -> String {
    t.to_token_stream().to_string().replace(' ', "")
}

fn lit_f32(e: &Expr) -> Result<f32, String> {
    match e {
        Expr::Lit(l) => match &l.lit {
            Lit::Float(f) => f.base10_parse::<f32>().map_err(|e| e.to_string()),
            Lit::Int(i) => i.base10_parse::<f32>().map_err(|e| e.to_string()),
            other => Err(format!("not a numeric literal: {}", toks(other))),
        },
        Expr::Unary(u) if matches!(u.op, syn::UnOp::Neg(_)) => lit_f32(&u.expr).map(|v| -v),
        Expr::Paren(p) => lit_f32(&p.expr),
        Expr::Group(g) => lit_f32(&g.expr),
        other => Err(format!("not a literal: {}", toks(other))),
    }
}

/// Flattens `recv.m1(a).m2(b)...` into (base expression, [(method, args)] in call order).
fn chain(e: &Expr) -> (Expr, Vec<(String, Vec<Expr>)>) {
    let mut calls = vec![];
    let mut cur = e.clone();
    loop {
        match cur {
            Expr::MethodCall(ExprMethodCall { receiver, method, args, .. }) => {
                calls.push((method.to_string(), args.into_iter().collect::<Vec<_>>()));
                cur = *receiver;
            }
            other => {
                calls.reverse();
                return (other, calls);
            }
        }
    }
}

/// `Path::func(args)` → (path-without-last-segment, func, args)
fn assoc_call(e: &Expr) -> Result<(String, String, Vec<Expr>), String> {
    let Expr::Call(c) = e else { return Err(format!("expected a call, got {}", toks(e))) };
    let Expr::Path(p) = &*c.func else { return Err("call of a non-path".into()) };
    let mut segs: Vec<String> = p.path.segments.iter().map(|s| toks(s)).collect();
    let f = segs.pop().ok_or("empty path")?;
    let lead = if p.path.leading_colon.is_some() { "::" } else { "" };
    Ok((format!("{lead}{}", segs.join("::")), f, c.args.iter().cloned().collect()))
}

fn parse_keyframe(e: &Expr) -> Result<KfN, String> {
    let (base, calls) = chain(e);
    let (target, f, args) = assoc_call(&base)?;
    if f != "keyframe" || args.len() != 1 {
        return Err(format!("keyframe base is {}", toks(&base)));
    }
    let pos = lit_f32(&args[0])?;
    let mut fields = vec![];
    let mut default: Option<f32> = None;
    for (m, a) in calls {
        if m == "values_from" {
            if a.len() != 2 || toks(&a[1]) != "&default_values" {
                return Err("values_from with unexpected arguments".into());
            }
            default = Some(lit_f32(&a[0])?);
        } else {
            if a.len() != 1 {
                return Err(format!("setter {m} with {} arguments", a.len()));
            }
            fields.push((m, toks(&a[0])));
        }
    }
    let body = match default {
        Some(p) if fields.is_empty() => KfBody::Default(p),
        Some(_) => return Err("values_from mixed with setters".into()),
        None => KfBody::Fields(fields),
    };
    Ok(KfN { target, pos, body })
}

pub fn parse_timeline_expr(e: &Expr) -> Result<TlN, String> {
    let (base, calls) = chain(e);
    let (target, f, args) = assoc_call(&base)?;
    if f != "timeline" || !args.is_empty() {
        return Err(format!("timeline base is {}", toks(&base)));
    }
    let mut t = TlN { target, ..Default::default() };
    let n = calls.len();
    for (i, (m, a)) in calls.into_iter().enumerate() {
        match m.as_str() {
            "build" => {
                if i != n - 1 || !a.is_empty() {
                    return Err("build() not last".into());
                }
            }
            "duration_seconds" if a.len() == 1 && t.duration.is_none() => t.duration = Some(lit_f32(&a[0])?),
            "delay_seconds" if a.len() == 1 && t.delay.is_none() => t.delay = Some(lit_f32(&a[0])?),
            "default_easing" if a.len() == 1 && t.easing.is_none() => t.easing = Some(toks(&a[0])),
            "reverse" if a.len() == 1 && t.reverse.is_none() => t.reverse = Some(toks(&a[0]) == "true"),
            "repeat" if a.len() == 1 && t.repeat.is_none() => {
                let s = toks(&a[0]);
                if s == "::mina::Repeat::Infinite" {
                    t.repeat = Some(RepN::Infinite);
                } else if let Some(inner) = s.strip_prefix("::mina::Repeat::Times(").and_then(|x| x.strip_suffix(')')) {
                    let digits = inner.trim_end_matches("u32");
                    t.repeat = Some(RepN::Times(digits.parse().map_err(|_| format!("repeat count {inner}"))?));
                } else {
                    return Err(format!("repeat argument {s}"));
                }
            }
            "keyframe" if a.len() == 1 => t.keyframes.push(parse_keyframe(&a[0])?),
            other => return Err(format!("unexpected or repeated builder call .{other}(..)")),
        }
        if i == n - 1 && m != "build" {
            return Err("chain does not end with build()".into());
        }
    }
    Ok(t)
}

pub fn parse_timeline_or_merged(e: &Expr) -> Result<TlOrMerged, String> {
    if let Expr::Call(c) = e {
        if toks(&c.func) == "::mina::MergedTimeline::of" {
            if c.args.len() != 1 {
                return Err("MergedTimeline::of arity".into());
            }
            let Expr::Array(arr) = &c.args[0] else { return Err("MergedTimeline::of argument is not an array".into()) };
            let mut v = vec![];
            for el in &arr.elems {
                v.push(parse_timeline_expr(el)?);
            }
            return Ok(TlOrMerged::Merged(v));
        }
    }
    Ok(TlOrMerged::Single(parse_timeline_expr(e)?))
}

pub fn parse_timeline_tokens(ts: proc_macro2::TokenStream) -> Result<TlOrMerged, String> {
    let e: Expr = syn::parse2(ts).map_err(|e| format!("expansion is not an expression: {e}"))?;
    parse_timeline_or_merged(&e)
}

// ------------------------------------------------------------------------------------------------
// animator! expansion

#[derive(Clone, Debug, PartialEq)]
pub enum DefaultsN {
    /// `Target::default()`
    TypeDefault(String),
    /// arbitrary expression used as is
    Expr(String),
    /// `{ let mut default_values = Target::default(); default_values.f = e; ...; default_values }`
    Inline(String, Vec<(String, String)>),
}

#[derive(Clone, Debug, PartialEq)]
pub struct AnimN {
    pub defaults: DefaultsN,
    pub from_state: Option<String>,
    pub ons: Vec<(String, TlOrMerged)>,
}

pub fn parse_animator_tokens(ts: proc_macro2::TokenStream) -> Result<AnimN, String> {
    let e: Expr = syn::parse2(ts).map_err(|e| format!("expansion is not an expression: {e}"))?;
    let Expr::Block(b) = e else { return Err("expansion is not a block".into()) };
    let stmts = &b.block.stmts;
    if stmts.len() != 2 {
        return Err(format!("block has {} statements", stmts.len()));
    }
    let syn::Stmt::Local(l) = &stmts[0] else { return Err("first statement is not a let".into()) };
    if toks(&l.pat) != "default_values" {
        return Err("first let does not bind default_values".into());
    }
    let init = &l.init.as_ref().ok_or("let without initialiser")?.expr;
    let defaults = parse_defaults(init)?;
    let syn::Stmt::Expr(chain_e, None) = &stmts[1] else { return Err("second statement is not a tail expression".into()) };
    let (base, calls) = chain(chain_e);
    if toks(&base) != "::mina::StateAnimatorBuilder::new()" {
        return Err(format!("builder base is {}", toks(&base)));
    }
    let mut from_state = None;
    let mut from_values = false;
    let mut ons = vec![];
    let n = calls.len();
    for (i, (m, a)) in calls.into_iter().enumerate() {
        match m.as_str() {
            "from_state" if a.len() == 1 && from_state.is_none() => from_state = Some(toks(&a[0])),
            "from_values" if a.len() == 1 && !from_values => {
                if toks(&a[0]) != "default_values.clone()" {
                    return Err("from_values argument".into());
                }
                from_values = true;
            }
            "on" if a.len() == 2 => ons.push((toks(&a[0]), parse_timeline_or_merged(&a[1])?)),
            "build" if i == n - 1 && a.is_empty() => {}
            other => return Err(format!("unexpected animator builder call .{other}(..)")),
        }
    }
    if !from_values {
        return Err("from_values missing".into());
    }
    Ok(AnimN { defaults, from_state, ons })
}

fn parse_defaults(e: &Expr) -> Result<DefaultsN, String> {
    if let Expr::Block(b) = e {
        let st = &b.block.stmts;
        if let Some(syn::Stmt::Local(l)) = st.first() {
            if toks(&l.pat) == "mutdefault_values" {
                let init = toks(&l.init.as_ref().ok_or("no init")?.expr);
                let target = init.strip_suffix("::default()").ok_or("inline defaults do not start from Default")?.to_string();
                let mut fields = vec![];
                for s in &st[1..st.len() - 1] {
                    if toks(s) == ";" || toks(s).is_empty() {
                        continue; // stray empty statement emitted for an empty field list
                    }
                    let syn::Stmt::Expr(Expr::Assign(a), _) = s else { return Err("inline default statement is not an assignment".into()) };
                    let lhs = toks(&a.left);
                    let f = lhs.strip_prefix("default_values.").ok_or("assignment target")?.to_string();
                    fields.push((f, toks(&a.right)));
                }
                let syn::Stmt::Expr(last, None) = &st[st.len() - 1] else { return Err("inline default tail".into()) };
                if toks(last) != "default_values" {
                    return Err("inline default tail".into());
                }
                return Ok(DefaultsN::Inline(target, fields));
            }
        }
    }
    let s = toks(e);
    if let Some(t) = s.strip_suffix("::default()") {
        if !t.contains('(') && !t.contains('{') {
            return Ok(DefaultsN::TypeDefault(t.to_string()));
        }
    }
    Ok(DefaultsN::Expr(s))
}
