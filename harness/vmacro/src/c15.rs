//! C15 — `timeline!` produces exactly the timeline the builder API would.
//! Layer A: every sentence of the bounded grammar expanded in-process and compared structurally
//! with the documented reading. Layer B: a covering subset compiled with the real proc macro and
//! run against builder-built twins; ill-formed sentences must fail to compile.

use crate::expand::expand_timeline;
use crate::genrun::*;
use crate::gt::*;
use crate::norm::*;
use serde_json::{json, Map, Value};
use vlib::util::*;

#[derive(Default)]
struct Acc {
    sink: VSink,
    sentences: u64,
    samples: Vec<Value>,
    distinct_programs: std::collections::HashSet<u64>,
}

fn merge(a: &mut Acc, b: Acc) {
    a.sink.merge(b.sink);
    a.sentences += b.sentences;
    if a.samples.len() < 3 {
        a.samples.extend(b.samples);
    }
    if a.distinct_programs.len() < 200_000 {
        a.distinct_programs.extend(b.distinct_programs);
    }
}

fn fnv(s: &str) -> u64 {
    let mut h: u64 = 0xcbf29ce484222325;
    for b in s.bytes() {
        h ^= b as u64;
        h = h.wrapping_mul(0x100000001b3);
    }
    h
}

/// Layer A check of one single-timeline sentence.
fn check_single(text: &str, sem: &TlS, rank: u64, acc: &mut Acc) {
    acc.sentences += 1;
    let src = format!("P {text}");
    let mk = |why: String| (format!("`timeline!({src})`: {why}"), json!({"sentence": src, "kind": "single"}));
    match expand_timeline(&src) {
        Err(e) => acc.sink.add("well-formed-sentence-rejected", rank, || mk(format!("rejected: {e}"))),
        Ok(ts) => {
            if acc.distinct_programs.len() < 50_000 {
                acc.distinct_programs.insert(fnv(&ts.to_string()));
            }
            match parse_timeline_tokens(ts.clone()) {
                Err(e) => acc.sink.add("expansion-not-a-builder-program", rank, || mk(format!("{e}: {ts}"))),
                Ok(TlOrMerged::Merged(_)) => acc.sink.add("single-sentence-expanded-to-merged", rank, || mk(ts.to_string())),
                Ok(TlOrMerged::Single(got)) => {
                    if let Err(why) = conforms(&got, sem, "P") {
                        let clause = why.split(':').next().unwrap_or("?").split(' ').next().unwrap_or("?").to_string();
                        acc.sink.add(&format!("expansion-differs-from-documented-reading:{clause}"), rank, || mk(format!("{why}; expansion: {ts}")));
                    }
                }
            }
        }
    }
}

fn check_merged(members: &[(String, TlS)], rank: u64, acc: &mut Acc) {
    acc.sentences += 1;
    let src = format!("P [{}]", members.iter().map(|m| m.0.clone()).collect::<Vec<_>>().join(", "));
    let mk = |why: String| (format!("`timeline!({src})`: {why}"), json!({"sentence": src, "kind": "merged"}));
    match expand_timeline(&src) {
        Err(e) => acc.sink.add("well-formed-sentence-rejected", rank, || mk(format!("rejected: {e}"))),
        Ok(ts) => match parse_timeline_tokens(ts.clone()) {
            Err(e) => acc.sink.add("expansion-not-a-builder-program", rank, || mk(format!("{e}: {ts}"))),
            Ok(got) => {
                let list: Vec<TlN> = match got {
                    TlOrMerged::Single(t) if members.len() == 1 => vec![t],
                    TlOrMerged::Single(_) => {
                        acc.sink.add("merged-list-collapsed", rank, || mk(ts.to_string()));
                        return;
                    }
                    TlOrMerged::Merged(v) => v,
                };
                if list.len() != members.len() {
                    acc.sink.add("merged-list-length", rank, || mk(format!("{} members in the expansion", list.len())));
                    return;
                }
                for (i, (g, (_, w))) in list.iter().zip(members).enumerate() {
                    if let Err(why) = conforms(g, w, "P") {
                        acc.sink.add("merged-member-differs-or-out-of-order", rank, || mk(format!("member {i}: {why}; expansion: {ts}")));
                        return;
                    }
                }
            }
        },
    }
}

/// Family F1: every subset of {duration, delay, repeat, reverse, easing} x 0..3 keyframes x EVERY
/// arrangement (arguments in any order, keyframes interleaved), literal forms rotated by `v`.
fn family_orders(variants: usize) -> Vec<(TlS, Vec<Item>)> {
    let mut out = vec![];
    for mask in 0..32u32 {
        for nk in 0..=3usize {
            for v in 0..variants {
                let d = if mask & 1 != 0 { Some((v * 3 + nk) % DURATIONS.len()) } else { None };
                let l = if mask & 2 != 0 { Some((v + mask as usize) % DELAYS.len()) } else { None };
                let r = if mask & 4 != 0 { Some((v + nk) % REPEATS.len()) } else { None };
                let rev = mask & 8 != 0;
                let e = if mask & 16 != 0 { Some((v + nk + mask as usize) % EASINGS.len()) } else { None };
                let kfs: Vec<(usize, usize)> = (0..nk).map(|i| ((v * 2 + i * 4 + mask as usize) % POSITIONS.len(), (v + i) % NBODIES)).collect();
                let sem = make(d, l, r, rev, e, &kfs);
                let mut args = vec![];
                if d.is_some() {
                    args.push(Item::D);
                }
                if l.is_some() {
                    args.push(Item::L);
                }
                if r.is_some() {
                    args.push(Item::R);
                }
                if rev {
                    args.push(Item::V);
                }
                if e.is_some() {
                    args.push(Item::E);
                }
                for arr in arrangements(&args, nk) {
                    out.push((sem.clone(), arr));
                }
            }
        }
    }
    out
}

/// Family F2: canonical order, ALL combinations of literal forms x keyframe lists of length <= maxk
/// over all positions x bodies.
fn family_forms(maxk: usize) -> Vec<TlS> {
    let mut kf_lists: Vec<Vec<(usize, usize)>> = vec![vec![]];
    let mut frontier: Vec<Vec<(usize, usize)>> = vec![vec![]];
    for _ in 0..maxk {
        let mut next = vec![];
        for l in &frontier {
            for p in 0..POSITIONS.len() {
                for b in 0..NBODIES {
                    let mut x = l.clone();
                    x.push((p, b));
                    next.push(x);
                }
            }
        }
        kf_lists.extend(next.iter().cloned());
        frontier = next;
    }
    let mut out = vec![];
    for d in 0..=DURATIONS.len() {
        for l in 0..=DELAYS.len() {
            for r in 0..=REPEATS.len() {
                for v in [false, true] {
                    for e in 0..=EASINGS.len() {
                        for k in &kf_lists {
                            out.push(make(d.checked_sub(1), l.checked_sub(1), r.checked_sub(1), v, e.checked_sub(1), k));
                        }
                    }
                }
            }
        }
    }
    out
}

fn merged_pool() -> Vec<(String, TlS)> {
    let specs: Vec<TlS> = vec![
        make(Some(0), None, None, false, None, &[(1, 0)]),
        make(Some(4), Some(1), None, false, None, &[(0, 1), (1, 2)]),
        make(Some(7), None, Some(2), false, None, &[(7, 3)]),
        make(Some(2), None, Some(0), true, Some(0), &[(0, 0), (4, 1), (1, 0)]),
        make(None, None, None, false, None, &[(1, 1)]),
        make(Some(9), Some(2), Some(1), false, Some(1), &[(5, 0)]),
        make(Some(5), None, None, true, None, &[]),
        make(Some(1), Some(0), None, false, Some(2), &[(3, 2), (6, 0)]),
        make(Some(3), None, Some(2), true, None, &[(2, 1)]),
        make(Some(6), None, None, false, None, &[(8, 0), (1, 3)]),
        make(Some(8), Some(1), Some(0), false, None, &[(0, 2)]),
        make(None, Some(0), None, false, None, &[]),
    ];
    specs.into_iter().map(|s| (s.render(&s.canonical_order()), s)).collect()
}

/// A sentence with `n` keyframes: `8s after 500ms 3x from {..} 1.25% {..} 2.5% {..} ... to {..}`.
fn long_sentence(n: usize) -> TlS {
    let b = bodies();
    let mut t = make(Some(1), Some(1), Some(1), false, None, &[]);
    for i in 0..n {
        let (text, exact): (&'static str, f64) = if i == 0 {
            ("from", 0.0)
        } else if i == n - 1 {
            ("to", 1.0)
        } else {
            let pct = i as f64 * 1.25;
            (Box::leak(format!("{pct}%").into_boxed_str()), pct / 100.0)
        };
        let bi = if i % 2 == 0 { 0 } else { 2 };
        t.kfs.push(KfS { pos: Num { text, exact }, body: b[bi].1.clone(), body_text: b[bi].0 });
    }
    t
}

fn layer_a(thorough: bool) -> (Acc, Vec<(String, String)>) {
    // returns the accumulated result and the Layer B selection: (macro sentence, builder source)
    let orders = family_orders(if thorough { 8 } else { 4 });
    let forms = family_forms(if thorough { 2 } else { 1 });
    let pool = merged_pool();
    let mut merged_lists: Vec<Vec<usize>> = vec![];
    for a in 0..pool.len() {
        merged_lists.push(vec![a]);
        for b in 0..pool.len() {
            merged_lists.push(vec![a, b]);
            for c in 0..pool.len() {
                merged_lists.push(vec![a, b, c]);
            }
        }
    }
    let n1 = orders.len();
    let n2 = forms.len();
    let n3 = merged_lists.len();
    const CH: usize = 256;
    let chunks = (n1 + n2 + n3 + CH - 1) / CH;
    let acc = par_fold(
        chunks,
        Acc::default,
        |ci, acc| {
            for i in ci * CH..((ci + 1) * CH).min(n1 + n2 + n3) {
                if i < n1 {
                    let (sem, arr) = &orders[i];
                    let text = sem.render(arr);
                    check_single(&text, sem, i as u64, acc);
                    if acc.samples.is_empty() && i % 7777 == 4242 {
                        acc.samples.push(json!({"sentence": format!("timeline!(P {text})"), "expansion": expand_timeline(&format!("P {text}")).map(|t| t.to_string()).unwrap_or_default(), "documented_reading_as_builder": sem.builder_source("P")}));
                    }
                } else if i < n1 + n2 {
                    let sem = &forms[i - n1];
                    let text = sem.render(&sem.canonical_order());
                    check_single(&text, sem, (1u64 << 40) | (i - n1) as u64, acc);
                } else {
                    let l = &merged_lists[i - n1 - n2];
                    let members: Vec<(String, TlS)> = l.iter().map(|&j| pool[j].clone()).collect();
                    check_merged(&members, (2u64 << 40) | (i - n1 - n2) as u64, acc);
                }
            }
        },
        merge,
    );
    // F4: long sentences (31, 32, 33, 41, 64, 65 keyframes): `from`, then multiples of 1.25%, then `to`
    let long: Vec<TlS> = [31usize, 32, 33, 41, 64, 65].iter().map(|&n| long_sentence(n)).collect();
    let mut acc = acc;
    for (i, sem) in long.iter().enumerate() {
        let text = sem.render(&sem.canonical_order());
        check_single(&text, sem, (3u64 << 40) | i as u64, &mut acc);
    }
    // Layer B selection: every production and every ordered pair of argument kinds appears
    let mut sel: Vec<(String, String)> = vec![];
    let stride1 = if thorough { 4 } else { 40 };
    for (i, (sem, arr)) in orders.iter().enumerate() {
        if i % stride1 == 0 {
            sel.push((format!("P {}", sem.render(arr)), sem.builder_source("P")));
        }
    }
    for sem in &long {
        sel.push((format!("P {}", sem.render(&sem.canonical_order())), sem.builder_source("P")));
    }
    let fixed = [(0usize, 1usize), (1usize, 0usize)];
    for d in 0..=DURATIONS.len() {
        for l in 0..=DELAYS.len() {
            for r in 0..=REPEATS.len() {
                for v in [false, true] {
                    for e in 0..=EASINGS.len() {
                        if !thorough && (d + l + r + e + v as usize) % 2 == 1 {
                            continue;
                        }
                        let sem = make(d.checked_sub(1), l.checked_sub(1), r.checked_sub(1), v, e.checked_sub(1), &fixed);
                        sel.push((format!("P {}", sem.render(&sem.canonical_order())), sem.builder_source("P")));
                    }
                }
            }
        }
    }
    for p in 0..POSITIONS.len() {
        for b in 0..NBODIES {
            let sem = make(Some(0), None, None, false, None, &[(p, b), (1, 1)]);
            sel.push((format!("P {}", sem.render(&sem.canonical_order())), sem.builder_source("P")));
        }
    }
    let stride3 = if thorough { 3 } else { 12 };
    for (i, l) in merged_lists.iter().enumerate() {
        if i % stride3 == 0 {
            let members: Vec<&(String, TlS)> = l.iter().map(|&j| &pool[j]).collect();
            // a local easing constant may only be moved once; it is a const, so reuse is fine
            let m = format!("P [{}]", members.iter().map(|m| m.0.clone()).collect::<Vec<_>>().join(", "));
            let b = if members.len() == 1 { members[0].1.builder_source("P") } else { format!("MergedTimeline::of([{}])", members.iter().map(|m| m.1.builder_source("P")).collect::<Vec<_>>().join(", ")) };
            sel.push((m, b));
        }
    }
    (acc, sel)
}

const PRELUDE: &str = r#"
#![allow(warnings)]
use mina::prelude::*;

#[derive(Animate, Clone, Debug, Default, PartialEq)]
struct P { a: f32, k: i32 }

const MY_EASE: Easing = Easing::InOutCubic;

fn ulps(a: f32, b: f32) -> u32 { if a == b { 0 } else if a.is_finite() && b.is_finite() && (a > 0.0) == (b > 0.0) { (a.to_bits() as i64 - b.to_bits() as i64).unsigned_abs() as u32 } else { u32::MAX } }

fn cmp<M: Timeline<Target = P>, B: Timeline<Target = P>>(id: usize, m: &M, b: &B, evals: &mut u64) {
    let mut bad = |what: String| println!("MISMATCH {id} {what}");
    if ulps(m.delay(), b.delay()) > 1 { bad(format!("delay {} vs {}", m.delay(), b.delay())); }
    match (m.cycle_duration(), b.cycle_duration()) {
        (Some(x), Some(y)) if ulps(x, y) <= 1 => {}
        (None, None) => {}
        (x, y) => bad(format!("cycle {:?} vs {:?}", x, y)),
    }
    if ulps(m.duration(), b.duration()) > 2 { bad(format!("duration {} vs {}", m.duration(), b.duration())); }
    if m.repeat() != b.repeat() { bad(format!("repeat {:?} vs {:?}", m.repeat(), b.repeat())); }
    let delay = b.delay();
    // a zero-length cycle is a well-formed sentence with well-defined metadata, but there is no defined value
    // at any time (0/0): only the metadata is compared
    if b.cycle_duration() == Some(0.0) { return; }
    let cycle = b.cycle_duration().unwrap_or(1.0);
    let total = b.duration();
    let exact_timing = m.delay() == b.delay() && m.cycle_duration() == b.cycle_duration();
    let mut ts = vec![0.0f32, delay * 0.5];
    for j in 0..26 { ts.push(delay + cycle * (j as f32 + 0.5) / 8.0); }
    if exact_timing { for j in 0..=24 { ts.push(delay + cycle * j as f32 / 8.0); } ts.push(delay); }
    // after the end (only when the end is near enough for `total + 1` to be a different number)
    if total < 1.0e6 { ts.push(total + 1.0); ts.push(total * 2.0 + 3.0); }
    // far time: only when both timings are bit-identical or the animation is long over by then
    // (a 1-ulp difference in the cycle literal drifts the phase of a still-running timeline)
    if exact_timing || total < 0.5e6 { ts.push(1.0e6); }
    for &t in &ts {
        *evals += 1;
        let mut pm = P { a: -5.5, k: 91 };
        let mut pb = pm.clone();
        m.update(&mut pm, t);
        b.update(&mut pb, t);
        let eps = 4.0 * (t.abs() * 1.2e-7) + 2.0e-6 * cycle;
        let mut lo = pb.clone();
        let mut hi = pb.clone();
        for tt in [t - eps, t + eps] {
            let mut q = P { a: -5.5, k: 91 };
            b.update(&mut q, tt);
            lo.k = lo.k.min(q.k); hi.k = hi.k.max(q.k);
            lo.a = lo.a.min(q.a); hi.a = hi.a.max(q.a);
        }
        if !(pm.a >= lo.a - 2.0e-3 && pm.a <= hi.a + 2.0e-3) { bad(format!("t={t}: a = {} (macro) vs {} (builder)", pm.a, pb.a)); }
        if !(pm.k >= lo.k && pm.k <= hi.k) { bad(format!("t={t}: k = {} (macro) vs {} (builder)", pm.k, pb.k)); }
    }
}
"#;

fn layer_b(sel: &[(String, String)], thorough: bool, acc: &mut Acc) -> (u64, u64, u64) {
    let nbins = if thorough { 16 } else { 8 };
    let bins: Vec<String> = (0..nbins).map(|i| format!("c15b_{i}")).collect();
    let bad = ill_formed();
    let bad_bins: Vec<String> = (0..bad.len()).map(|i| format!("c15bad_{i}")).collect();
    let mut all = bins.clone();
    all.extend(bad_bins.iter().cloned());
    let dir = prepare_crate("c15b", &all);
    for (bi, b) in bins.iter().enumerate() {
        let mut src = String::from(PRELUDE);
        let mut calls = String::new();
        for (i, (m, bsrc)) in sel.iter().enumerate() {
            if i % nbins != bi {
                continue;
            }
            let needs_defaults = bsrc.contains("default_values");
            src += &format!("fn case_{i}(evals: &mut u64) {{\n    {}let m = timeline!({m});\n    let b = {bsrc};\n    cmp({i}, &m, &b, evals);\n}}\n", if needs_defaults { "let default_values = P { a: 4.0, k: 4 };\n    " } else { "" });
            calls += &format!("    case_{i}(&mut evals);\n");
        }
        src += &format!("fn main() {{\n    let mut evals = 0u64;\n{calls}    println!(\"DONE {{}}\", evals);\n}}\n");
        write_if_changed(&dir.join("src").join(format!("{b}.rs")), &src);
    }
    for (i, (_, s)) in bad.iter().enumerate() {
        let src = format!("{PRELUDE}\nfn main() {{ let t = timeline!({s}); let mut p = P::default(); t.update(&mut p, 0.5); println!(\"{{:?}}\", p); }}\n");
        write_if_changed(&dir.join("src").join(format!("{}.rs", bad_bins[i])), &src);
    }
    let t0 = std::time::Instant::now();
    let refs: Vec<&str> = bins.iter().map(|s| s.as_str()).collect();
    let (ok, err) = cargo_build(&dir, &refs);
    if !ok {
        // a well-formed sentence that does not compile is a violation, not a machinery failure
        let first = err.lines().filter(|l| l.starts_with("error")).take(3).collect::<Vec<_>>().join(" | ");
        acc.sink.add("compiled:well-formed-family-does-not-compile", 0, || (format!("generated conformance crate failed to compile: {first}"), json!({"crate": dir.display().to_string(), "stderr_head": err.lines().take(40).collect::<Vec<_>>().join("\n")})));
        return (0, 0, 0);
    }
    eprintln!("[C15] layer B: {} sentences compiled in {:.1}s", sel.len(), t0.elapsed().as_secs_f64());
    let mut evals = 0u64;
    let mut done = 0u64;
    for b in &bins {
        let (ok, out) = run_bin(b);
        if !ok {
            acc.sink.add("compiled:conformance-binary-crashed", 1, || (format!("{b} exited abnormally"), json!({"bin": b})));
        }
        for l in out.lines() {
            if let Some(rest) = l.strip_prefix("MISMATCH ") {
                let (id, what) = rest.split_once(' ').unwrap_or((rest, ""));
                let i: usize = id.parse().unwrap_or(0);
                let clause = what.split(' ').next().unwrap_or("?").trim_start_matches("t=").chars().all(|c| c.is_ascii_digit() || c == '.' || c == 'e' || c == '-' || c == ':');
                let sig = if clause { "compiled:values-differ".to_string() } else { format!("compiled:{}-differs", what.split(' ').next().unwrap_or("?")) };
                acc.sink.add(&sig, 10 + i as u64, || (format!("`timeline!({})` vs `{}`: {what}", sel[i].0, sel[i].1), json!({"sentence": sel[i].0, "builder": sel[i].1, "kind": "compiled"})));
            } else if let Some(n) = l.strip_prefix("DONE ") {
                evals += n.parse::<u64>().unwrap_or(0);
                done += 1;
            }
        }
    }
    if done != bins.len() as u64 {
        machinery_fail("a conformance binary did not finish");
    }
    // ill-formed sentences: one cargo invocation each, must fail with an error in our source
    let mut rejected = 0u64;
    for (i, (why, s)) in bad.iter().enumerate() {
        let (ok, err) = cargo_build(&dir, &[bad_bins[i].as_str()]);
        if ok {
            acc.sink.add(&format!("compiled:ill-formed-accepted:{why}"), 5, || (format!("`timeline!({s})` ({why}) compiled"), json!({"sentence": s, "kind": "ill-formed-compiled"})));
        } else if !err.contains("error") {
            machinery_fail(&format!("cargo failed without a compiler error: {err}"));
        } else {
            rejected += 1;
        }
    }
    (sel.len() as u64, evals, rejected)
}

pub fn run(run: Run) -> ! {
    let thorough = run.is_thorough();
    let (mut acc, sel) = layer_a(thorough);
    // ill-formed family, in-process: expansion must be an error for every member
    let mut ill = 0u64;
    for (why, s) in ill_formed() {
        ill += 1;
        if let Ok(ts) = expand_timeline(s) {
            acc.sink.add(&format!("ill-formed-accepted:{why}"), ill, || (format!("`timeline!({s})` ({why}) was accepted: {ts}"), json!({"sentence": s, "kind": "ill-formed"})));
        }
    }
    let a_sentences = acc.sentences;
    let (compiled, evals, rejected) = layer_b(&sel, thorough, &mut acc);
    let mut cov = Map::new();
    cov.insert("states".into(), json!(a_sentences + ill));
    cov.insert("transitions".into(), json!(a_sentences + ill + evals));
    cov.insert("traces_validated_against_impl".into(), json!(compiled + rejected));
    cov.insert("programs".into(), json!(a_sentences + ill));
    cov.insert("programs_compiled".into(), json!(compiled + rejected));
    cov.insert("evaluations".into(), json!(a_sentences + evals));
    cov.insert("distinct_nontrivial".into(), json!(acc.distinct_programs.len()));
    cov.insert("rule".into(), json!("Layer A (in-process, real macro sources included textually): F1 = every subset of {duration, delay, repeat, reverse, easing} x 0..3 keyframes x EVERY order of the arguments with keyframes interleaved, literal forms rotated; F2 = canonical order x ALL combinations of literal forms (13 durations incl. 1_500ms, 2e3ms, `for`, a 17-digit literal just past the midpoint of two f32 values (seconds literals must arrive as exactly the nearest f32), and the zero lengths 0s / 0.0ms (metadata only); 5 delays incl. the negative after -0.5s / after -250ms; 1x/3x/infinite/16_777_217x (not representable in f32)/4294967295x; reverse; 3 easing paths) x keyframe lists over 9 positions (from,to,0%,10%,25%,40%,100%,12.5%,33.3%) x 5 bodies (one with its fields not in alphabetical order: setters are called in the order written); F3 = all merged lists of 1..3 members from a 12-sentence pool; F4 = long sentences of 31, 32, 33, 41, 64 and 65 keyframes; each expansion is parsed back into a builder program and compared with the documented reading (numbers within 1 ulp of the exact decimal, structure equal, keyframes and members in source order); 21 ill-formed sentences (five of them members of a bracketed list) must be rejected. Layer B: a covering subset compiled with the real proc macro and run against builder twins (values on a time grid, delay/cycle within 1 ulp, duration within 2 ulp, repeat equal); ill-formed sentences compiled one per cargo invocation must fail. non-trivial = distinct expansions (hash of token stream, capped)"));
    cov.insert("exhaustive".into(), json!(true));
    cov.insert("compiled_timeline_evaluations".into(), json!(evals));
    cov.insert("ill_formed_rejected_in_process".into(), json!(ill));
    cov.insert("ill_formed_rejected_by_compiler".into(), json!(rejected));
    cov.insert("samples".into(), json!(acc.samples));
    run.finish(acc.sink, cov, vec!["numeric literals are read as decimal quantities; any f32 within 1 ulp of the exact value is accepted".into(), "Layer B covers a systematic subset of Layer A (every production, every literal form, every 40th/4th argument order)".into()])
}

pub fn replay(case: &Value) -> bool {
    let s = case["sentence"].as_str().unwrap_or("");
    println!("sentence: timeline!({s})");
    match expand_timeline(s) {
        Ok(ts) => {
            println!("expansion: {ts}");
            println!("normalised: {:?}", parse_timeline_tokens(ts));
            case["kind"].as_str() != Some("ill-formed")
        }
        Err(e) => {
            println!("rejected: {e}");
            case["kind"].as_str() == Some("ill-formed")
        }
    }
}
