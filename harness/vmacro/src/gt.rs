//! Bounded grammar of `timeline!` sentences with their documented reading.

use crate::norm::*;

#[derive(Clone, Debug)]
pub struct Num {
    pub text: &'static str,
    /// exact value in seconds (durations/delays) or as a fraction of 1 (positions)
    pub exact: f64,
}

#[derive(Clone, Debug, PartialEq)]
pub enum RepS {
    Times(u32),
    Infinite,
}

#[derive(Clone, Debug)]
pub enum BodyS {
    Fields(Vec<(&'static str, &'static str)>),
    Default,
}

#[derive(Clone, Debug)]
pub struct KfS {
    pub pos: Num,
    pub body: BodyS,
    pub body_text: &'static str,
}

#[derive(Clone, Debug, Default)]
pub struct TlS {
    pub duration: Option<Num>,
    pub delay: Option<Num>,
    pub repeat: Option<(RepS, &'static str)>,
    pub reverse: bool,
    pub easing: Option<&'static str>,
    pub kfs: Vec<KfS>,
}

pub const DURATIONS: [(&str, f64); 13] = [("1s", 1.0), ("5s", 5.0), ("0.5s", 0.5), ("2.5s", 2.5), ("250ms", 0.25), ("1500ms", 1.5), ("1_500ms", 1.5), ("2e3ms", 2.0), ("for 2s", 2.0), ("for 750ms", 0.75), ("0s", 0.0), ("0.0ms", 0.0), ("1.0000000596046448s", 1.0000000596046448)];
// negative delays (the animation is already under way at time 0) are ordinary builder input and ordinary literals
pub const DELAYS: [(&str, f64); 5] = [("after 1s", 1.0), ("after 250ms", 0.25), ("after 0.5s", 0.5), ("after -0.5s", -0.5), ("after -250ms", -0.25)];
pub const REPEATS: [(&str, Option<u32>); 5] = [("1x", Some(1)), ("3x", Some(3)), ("infinite", None), ("16_777_217x", Some(16_777_217)), ("4294967295x", Some(u32::MAX))];
pub const EASINGS: [&str; 3] = ["Easing::OutQuad", "mina::Easing::In", "MY_EASE"];
pub const POSITIONS: [(&str, f64); 9] = [("from", 0.0), ("to", 1.0), ("0%", 0.0), ("10%", 0.10), ("25%", 0.25), ("40%", 0.40), ("100%", 1.0), ("12.5%", 0.125), ("33.3%", 0.333)];

pub const NBODIES: usize = 5;

pub fn bodies() -> Vec<(&'static str, BodyS)> {
    vec![
        ("{ a: 1.0 }", BodyS::Fields(vec![("a", "1.0")])),
        ("{ a: 2.0, k: 7 }", BodyS::Fields(vec![("a", "2.0"), ("k", "7")])),
        ("{ k: 3, }", BodyS::Fields(vec![("k", "3")])),
        ("{}", BodyS::Fields(vec![])),
        // fields not in alphabetical order: the setters are called in the order written (field expressions may
        // have side effects)
        ("{ k: 7, a: 2.0 }", BodyS::Fields(vec![("k", "7"), ("a", "2.0")])),
    ]
}

#[derive(Clone, Copy, Debug, PartialEq)]
pub enum Item {
    D,
    L,
    R,
    V,
    E,
    K(usize),
}

impl TlS {
    /// Renders the sentence with its items in the given order.
    pub fn render(&self, order: &[Item]) -> String {
        let mut parts: Vec<String> = vec![];
        for it in order {
            match it {
                Item::D => parts.push(self.duration.as_ref().unwrap().text.to_string()),
                Item::L => parts.push(self.delay.as_ref().unwrap().text.to_string()),
                Item::R => parts.push(self.repeat.as_ref().unwrap().1.to_string()),
                Item::V => parts.push("reverse".into()),
                Item::E => parts.push(self.easing.unwrap().to_string()),
                Item::K(i) => {
                    let k = &self.kfs[*i];
                    parts.push(format!("{} {}", k.pos.text, k.body_text));
                }
            }
        }
        parts.join(" ")
    }

    pub fn canonical_order(&self) -> Vec<Item> {
        let mut v = vec![];
        if self.duration.is_some() {
            v.push(Item::D);
        }
        if self.delay.is_some() {
            v.push(Item::L);
        }
        if self.easing.is_some() {
            v.push(Item::E);
        }
        if self.repeat.is_some() {
            v.push(Item::R);
        }
        if self.reverse {
            v.push(Item::V);
        }
        for i in 0..self.kfs.len() {
            v.push(Item::K(i));
        }
        v
    }

    /// The builder program of the documented reading, as Rust source (for compiled twins).
    pub fn builder_source(&self, target: &str) -> String {
        let mut s = format!("{target}::timeline()");
        if let Some(d) = &self.duration {
            s += &format!(".duration_seconds({:?}f32)", d.exact);
        }
        if let Some(d) = &self.delay {
            s += &format!(".delay_seconds({:?}f32)", d.exact);
        }
        if let Some(e) = self.easing {
            s += &format!(".default_easing({e})");
        }
        match &self.repeat {
            Some((RepS::Times(n), _)) => s += &format!(".repeat(Repeat::Times({n}))"),
            Some((RepS::Infinite, _)) => s += ".repeat(Repeat::Infinite)",
            None => {}
        }
        if self.reverse {
            s += ".reverse(true)";
        }
        for k in &self.kfs {
            match &k.body {
                BodyS::Fields(fs) => {
                    s += &format!(".keyframe({target}::keyframe({:?}f32)", k.pos.exact);
                    for (f, e) in fs {
                        s += &format!(".{f}({e})");
                    }
                    s += ")";
                }
                BodyS::Default => s += &format!(".keyframe({target}::keyframe_from(&default_values, {:?}f32))", k.pos.exact),
            }
        }
        s + ".build()"
    }
}

fn within_1ulp(got: f32, exact: f64) -> bool {
    let nearest = exact as f32;
    let lo = f32::from_bits(if nearest > 0.0 { nearest.to_bits() - 1 } else { nearest.to_bits() });
    let hi = f32::from_bits(nearest.to_bits() + 1);
    got == nearest || (nearest > 0.0 && (got == lo || got == hi)) || (nearest == 0.0 && got == 0.0)
}

/// For a time literal written in seconds (`2.5s`, `for 2s`, `after 1s`) the builder call must receive exactly the
/// f32 nearest to the decimal text (no unit arithmetic is involved, so there is nothing to round twice); `ms`
/// literals and percentages are multiplied by a constant and get the 1-ulp allowance.
fn seconds_literal_exact(text: &str) -> Option<f32> {
    let t = text.trim_start_matches("for ").trim_start_matches("after ").trim();
    if t.ends_with("ms") || !t.ends_with('s') {
        return None;
    }
    t[..t.len() - 1].replace('_', "").parse::<f32>().ok()
}

fn time_ok(got: f32, want: &Num) -> bool {
    match seconds_literal_exact(want.text) {
        Some(e) => got.to_bits() == e.to_bits(),
        None => within_1ulp(got, want.exact),
    }
}

fn norm_expr(s: &str) -> String {
    s.replace(' ', "")
}

/// Compares a normalised expansion with the documented reading. Returns the first difference.
pub fn conforms(got: &TlN, want: &TlS, target: &str) -> Result<(), String> {
    if got.target != target {
        return Err(format!("target {} instead of {}", got.target, target));
    }
    match (&got.duration, &want.duration) {
        (None, None) => {}
        (Some(g), Some(w)) if time_ok(*g, w) => {}
        (g, w) => return Err(format!("duration: expansion sets {:?}, `{}` means {:?} s", g, w.as_ref().map(|x| x.text).unwrap_or("(absent)"), w.as_ref().map(|x| x.exact))),
    }
    match (&got.delay, &want.delay) {
        (None, None) => {}
        (Some(g), Some(w)) if time_ok(*g, w) => {}
        (g, w) => return Err(format!("delay: expansion sets {:?}, `{}` means {:?} s", g, w.as_ref().map(|x| x.text).unwrap_or("(absent)"), w.as_ref().map(|x| x.exact))),
    }
    match (&got.repeat, &want.repeat) {
        (None, None) => {}
        (Some(RepN::Infinite), Some((RepS::Infinite, _))) => {}
        (Some(RepN::Times(a)), Some((RepS::Times(b), _))) if a == b => {}
        (g, w) => return Err(format!("repeat: expansion sets {:?}, sentence says {:?}", g, w)),
    }
    if got.reverse.unwrap_or(false) != want.reverse {
        return Err(format!("reverse: expansion {:?}, sentence {}", got.reverse, want.reverse));
    }
    match (&got.easing, &want.easing) {
        (None, None) => {}
        (Some(g), Some(w)) if norm_expr(g) == norm_expr(w) => {}
        (g, w) => return Err(format!("default easing: expansion {:?}, sentence {:?}", g, w)),
    }
    if got.keyframes.len() != want.kfs.len() {
        return Err(format!("{} keyframes in the expansion, {} in the sentence", got.keyframes.len(), want.kfs.len()));
    }
    for (i, (g, w)) in got.keyframes.iter().zip(&want.kfs).enumerate() {
        if g.target != target {
            return Err(format!("keyframe {i}: target {}", g.target));
        }
        if !within_1ulp(g.pos, w.pos.exact) {
            return Err(format!("keyframe {i}: position {} but `{}` means {}", g.pos, w.pos.text, w.pos.exact));
        }
        match (&g.body, &w.body) {
            (KfBody::Default(p), BodyS::Default) => {
                if !within_1ulp(*p, w.pos.exact) {
                    return Err(format!("keyframe {i}: values_from position {p}"));
                }
            }
            (KfBody::Fields(gf), BodyS::Fields(wf)) => {
                let a: Vec<(String, String)> = gf.iter().map(|(f, e)| (f.clone(), norm_expr(e))).collect();
                let b: Vec<(String, String)> = wf.iter().map(|(f, e)| (f.to_string(), norm_expr(e))).collect();
                if a != b {
                    return Err(format!("keyframe {i}: fields {:?}, sentence {:?}", a, b));
                }
            }
            (g, w) => return Err(format!("keyframe {i}: body {:?} vs {:?}", g, w)),
        }
    }
    Ok(())
}

/// All arrangements of `args` (every permutation) interleaved with keyframes K(0..n) kept in order.
pub fn arrangements(args: &[Item], nk: usize) -> Vec<Vec<Item>> {
    fn rec(args: &[Item], used: &mut Vec<bool>, next_k: usize, nk: usize, cur: &mut Vec<Item>, out: &mut Vec<Vec<Item>>) {
        if cur.len() == args.len() + nk {
            out.push(cur.clone());
            return;
        }
        for i in 0..args.len() {
            if !used[i] {
                used[i] = true;
                cur.push(args[i]);
                rec(args, used, next_k, nk, cur, out);
                cur.pop();
                used[i] = false;
            }
        }
        if next_k < nk {
            cur.push(Item::K(next_k));
            rec(args, used, next_k + 1, nk, cur, out);
            cur.pop();
        }
    }
    let mut out = vec![];
    rec(args, &mut vec![false; args.len()], 0, nk, &mut vec![], &mut out);
    out
}

pub fn make(d: Option<usize>, l: Option<usize>, r: Option<usize>, v: bool, e: Option<usize>, kfs: &[(usize, usize)]) -> TlS {
    let b = bodies();
    TlS {
        duration: d.map(|i| Num { text: DURATIONS[i].0, exact: DURATIONS[i].1 }),
        delay: l.map(|i| Num { text: DELAYS[i].0, exact: DELAYS[i].1 }),
        repeat: r.map(|i| (match REPEATS[i].1 { Some(n) => RepS::Times(n), None => RepS::Infinite }, REPEATS[i].0)),
        reverse: v,
        easing: e.map(|i| EASINGS[i]),
        kfs: kfs.iter().map(|&(p, bi)| KfS { pos: Num { text: POSITIONS[p].0, exact: POSITIONS[p].1 }, body: b[bi].1.clone(), body_text: b[bi].0 }).collect(),
    }
}

/// Ill-formed sentences: each must be rejected.
pub fn ill_formed() -> Vec<(&'static str, &'static str)> {
    vec![
        ("unknown suffix", "P 5m to { a: 1.0 }"),
        ("unknown suffix (h)", "P 2h"),
        ("missing percent", "P 1s 40 { a: 1.0 }"),
        ("non-integer repeat", "P 1s 2.5x to { a: 1.0 }"),
        ("keyframe without braces", "P 1s from a: 1.0"),
        ("keyframe without braces (percent)", "P 1s 50% a: 1.0"),
        ("delay without unit", "P 1s after 5 to { a: 1.0 }"),
        ("unsuffixed duration", "P 5 to { a: 1.0 }"),
        ("unsuffixed duration after for", "P for 5 to { a: 1.0 }"),
        ("stray token", "P 1s + to { a: 1.0 }"),
        ("stray string literal", "P 1s \"x\" to { a: 1.0 }"),
        ("delay with unknown suffix", "P after 3m to { a: 1.0 }"),
        // the same mistakes in a member of a bracketed list (the other member is fine)
        ("unknown unit after for, inside a list", "P [1s to { a: 1.0 }, for 2m to { a: 2.0 }]"),
        ("delay without unit, inside a list", "P [1s after 500 to { a: 2.0 }, 1s to { a: 1.0 }]"),
        ("delay with unknown suffix, inside a list", "P [1s to { a: 1.0 }, 1s after 3sec to { a: 2.0 }, 2s to { k: 3 }]"),
        ("repeat count above u32::MAX, inside a list", "P [1s to { a: 1.0 }, 1s 4294967296x to { a: 2.0 }]"),
        ("repeat count above u32::MAX", "P 1s 4294967296x to { a: 2.0 }"),
        ("percent with unit suffix", "P 1s 40s% { a: 1.0 }"),
        ("keyframe body not a field list", "P 1s to { 1.0 }"),
        ("negative repeat", "P 1s -1x to { a: 1.0 }"),
    ]
}
