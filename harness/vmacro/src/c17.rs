//! C17 — derive(Animate) yields a correct timeline API for every struct shape.

use crate::expand::expand_derive;
use crate::genrun::*;
use quote::ToTokens;
use serde_json::{json, Map, Value};
use vlib::util::*;

/// the first six are enumerated exhaustively; the rest appear in the "all numeric types" shapes
const TYPES: [&str; 11] = ["f32", "f64", "u8", "i16", "i32", "u32", "i8", "u16", "i64", "u64", "usize"];
const VIS: [&str; 3] = ["", "pub ", "pub(crate) "];

#[derive(Clone, Debug)]
struct Shape {
    /// (type index, has #[animate], field visibility index)
    fields: Vec<(usize, bool, usize)>,
    vis: usize,
    remote: bool,
    /// per-field attribute decoration: 0 none, 1 doc comment before the marker, 2 #[allow(..)] before,
    /// 3 doc comment after the marker, 4 #[cfg(all())] before
    deco: Vec<u8>,
    /// struct-level decoration: 0 none, 1 doc comment, 2 #[allow(dead_code)] (before the remote attribute)
    sdeco: u8,
    /// remote type given as a module-qualified path (`ext::RemoteW`) instead of a bare identifier
    modpath: bool,
}

impl Shape {
    fn name(&self) -> &'static str {
        if self.remote { "WProxy" } else { "W" }
    }
    fn target(&self) -> &'static str {
        if self.remote { "RemoteW" } else { "W" }
    }
    fn animated(&self) -> Vec<usize> {
        let marked: Vec<usize> = (0..self.fields.len()).filter(|&i| self.fields[i].1).collect();
        if marked.is_empty() { (0..self.fields.len()).collect() } else { marked }
    }
    fn decl(&self) -> String {
        let mut s = String::new();
        match self.sdeco {
            1 => s += "/// A documented struct.\n",
            2 => s += "#[allow(dead_code)] ",
            _ => {}
        }
        if self.remote {
            s += if self.modpath { "#[animate(remote = \"ext::RemoteW\")] " } else { "#[animate(remote = \"RemoteW\")] " };
        }
        s += &format!("{}struct {} {{ ", VIS[self.vis], self.name());
        for (i, (t, a, v)) in self.fields.iter().enumerate() {
            let d = self.deco.get(i).copied().unwrap_or(0);
            let marker = if *a { "#[animate] " } else { "" };
            match d {
                1 => s += &format!("\n/// A documented field.\n{marker}"),
                2 => s += &format!("#[allow(dead_code)] {marker}"),
                3 => s += &format!("{marker}\n/// A documented field.\n"),
                4 => s += &format!("#[cfg(all())] {marker}"),
                _ => s += marker,
            }
            s += &format!("{}f{}: {}, ", VIS[*v], i, TYPES[*t]);
        }
        s + "}"
    }
    fn to_json(&self) -> Value {
        json!({"declaration": format!("#[derive(Animate)] {}", self.decl()), "animated_fields": self.animated().iter().map(|i| format!("f{i}")).collect::<Vec<_>>()})
    }
}

fn t(x: &impl ToTokens) -> String {
    x.to_token_stream().to_string().replace(' ', "")
}

/// Extracts all `prefix<ident>suffix`-style captures: occurrences of `pat_before` followed by an
/// identifier, returned in order.
fn captures(hay: &str, before: &str) -> Vec<String> {
    let mut out = vec![];
    let mut i = 0;
    while let Some(p) = hay[i..].find(before) {
        let s = i + p + before.len();
        let id: String = hay[s..].chars().take_while(|c| c.is_alphanumeric() || *c == '_').collect();
        if !id.is_empty() {
            out.push(id);
        }
        i = s;
    }
    out
}

fn check_shape(sh: &Shape, rank: u64, sink: &mut VSink) {
    let src = sh.decl();
    let mk = |why: String| (format!("`#[derive(Animate)] {src}`: {why}"), sh.to_json());
    let ts = match expand_derive(&src) {
        Ok(t) => t,
        Err(e) => {
            sink.add("supported-struct-rejected", rank, || mk(format!("rejected: {e}")));
            return;
        }
    };
    let file: syn::File = match syn::parse2(ts.clone()) {
        Ok(f) => f,
        Err(e) => {
            sink.add("expansion-does-not-parse", rank, || mk(format!("{e}")));
            return;
        }
    };
    let r = sh.target();
    let anim = sh.animated();
    let want_fields: Vec<(String, String)> = anim.iter().map(|&i| (format!("f{i}"), TYPES[sh.fields[i].0].to_string())).collect();
    let want_names: Vec<String> = want_fields.iter().map(|f| f.0.clone()).collect();
    let want_vis = VIS[sh.vis].trim().to_string();
    let mut seen_animate = false;
    let mut seen_tl_struct = false;
    let mut seen_tl_impl = false;
    let mut seen_data = false;
    let mut seen_builder_struct = false;
    let mut seen_builder_impl = false;
    for item in &file.items {
        match item {
            syn::Item::Struct(s) => {
                let name = s.ident.to_string();
                let vis = t(&s.vis);
                let fields: Vec<(String, String)> = s.fields.iter().map(|f| (f.ident.as_ref().unwrap().to_string(), t(&f.ty))).collect();
                if name == format!("{r}Timeline") {
                    seen_tl_struct = true;
                    if vis != want_vis {
                        sink.add("visibility:timeline", rank, || mk(format!("timeline struct visibility `{vis}`, struct has `{want_vis}`")));
                    }
                    let subs: Vec<(String, String)> = fields.iter().filter(|f| f.0.starts_with("t_")).map(|f| (f.0[2..].to_string(), f.1.clone())).collect();
                    let want: Vec<(String, String)> = want_fields.iter().map(|(n, ty)| (n.clone(), format!("::mina::SubTimeline<{ty}>"))).collect();
                    if subs != want {
                        sink.add("timeline-subtimelines", rank, || mk(format!("sub-timelines {:?}, animated fields {:?}", subs, want)));
                    }
                } else if name == format!("{r}KeyframeData") {
                    seen_data = true;
                    if vis != want_vis {
                        sink.add("visibility:keyframe-data", rank, || mk(format!("keyframe data visibility `{vis}`")));
                    }
                    let want: Vec<(String, String)> = want_fields.iter().map(|(n, ty)| (n.clone(), format!("std::option::Option<{ty}>"))).collect();
                    if fields != want {
                        sink.add("keyframe-data-fields", rank, || mk(format!("keyframe data fields {:?}, animated fields {:?}", fields, want)));
                    }
                } else if name == format!("{r}KeyframeBuilder") {
                    seen_builder_struct = true;
                    if vis != want_vis {
                        sink.add("visibility:keyframe-builder", rank, || mk(format!("keyframe builder visibility `{vis}`")));
                    }
                }
            }
            syn::Item::Impl(im) => {
                let self_ty = t(&im.self_ty);
                let tr = im.trait_.as_ref().map(|x| t(&x.1));
                match (tr.as_deref(), self_ty.as_str()) {
                    (Some("Animate"), n) if n == sh.name() => {
                        seen_animate = true;
                        let body = t(im);
                        for (k, v) in [("typeTimeline=", format!("{r}Timeline;")), ("typeKeyframeBuilder=", format!("{r}KeyframeBuilder;")), ("typeTimelineBuilder=", format!("::mina::TimelineConfiguration<{r}KeyframeData>;"))] {
                            if !body.contains(&format!("{k}{v}")) {
                                sink.add("animate-impl:associated-types", rank, || mk(format!("`{k}{v}` not found in impl Animate")));
                            }
                        }
                        if !body.contains(&format!("fnkeyframe_from(target:&{r},")) {
                            sink.add("animate-impl:keyframe_from-target", rank, || mk(format!("keyframe_from does not take &{r}")));
                        }
                        let set: Vec<String> = captures(&body, "keyframe=keyframe.");
                        let src_f: Vec<String> = captures(&body, "(target.");
                        if set != want_names || src_f != want_names {
                            sink.add("keyframe_from-copies-wrong-fields", rank, || mk(format!("keyframe_from sets {:?} from target fields {:?}, animated fields {:?}", set, src_f, want_names)));
                        }
                    }
                    (Some("::mina::Timeline"), n) if n == format!("{r}Timeline") => {
                        seen_tl_impl = true;
                        let body = t(im);
                        if !body.contains(&format!("typeTarget={r};")) {
                            sink.add("timeline-target-type", rank, || mk(format!("Timeline::Target is not {r}")));
                        }
                        let upd: Vec<String> = captures(&body, "{target.");
                        if upd != want_names {
                            sink.add("update-assigns-wrong-fields", rank, || mk(format!("update assigns {:?}, animated fields {:?}", upd, want_names)));
                        }
                        let ov: Vec<String> = captures(&body, "override_start_value(values.");
                        let ovt: Vec<String> = captures(&body, "self.t_");
                        if ov != want_names {
                            sink.add("start_with-overrides-wrong-fields", rank, || mk(format!("start_with overrides {:?} (sub-timelines {:?}), animated fields {:?}", ov, ovt, want_names)));
                        }
                        // each value_at result goes to the field of the same name
                        for n in &want_names {
                            if !body.contains(&format!("ifletSome({n})=self.t_{n}.value_at(normalized_time,frame_index,enable_start_override){{target.{n}={n};}}")) {
                                sink.add("update-wiring", rank, || mk(format!("update does not wire t_{n} to target.{n}")));
                            }
                            if !body.contains(&format!("self.t_{n}.override_start_value(values.{n});")) {
                                sink.add("start_with-wiring", rank, || mk(format!("start_with does not wire values.{n} to t_{n}")));
                            }
                        }
                        for (acc_fn, getter) in [("fndelay(&self)->f32{self.timescale.get_delay()}", "delay"), ("fnduration(&self)->f32{self.timescale.get_duration()}", "duration"), ("fnrepeat(&self)->Repeat{self.timescale.get_repeat()}", "repeat"), ("fncycle_duration(&self)->Option<f32>{Some(self.timescale.get_cycle_duration())}", "cycle_duration")] {
                            if !body.contains(acc_fn) {
                                sink.add(&format!("accessor:{getter}"), rank, || mk(format!("{getter}() is not forwarded to the time scale")));
                            }
                        }
                    }
                    (None, n) if n == format!("{r}KeyframeBuilder") => {
                        seen_builder_impl = true;
                        let mut setters: Vec<(String, String)> = vec![];
                        for it in &im.items {
                            if let syn::ImplItem::Fn(f) = it {
                                let name = f.sig.ident.to_string();
                                if name == "new" || name == "values_from" {
                                    continue;
                                }
                                let public = matches!(f.vis, syn::Visibility::Public(_));
                                let arg_ty = f.sig.inputs.iter().nth(1).map(|a| match a {
                                    syn::FnArg::Typed(p) => t(&p.ty),
                                    _ => String::new(),
                                });
                                let body = t(&f.block);
                                if !public || t(&f.sig.output) != "->Self" || !body.contains(&format!("self.data.{name}=std::option::Option::Some({name});")) {
                                    sink.add("setter-shape", rank, || mk(format!("setter {name} is not `pub fn {name}(mut self, {name}: T) -> Self` storing into data.{name}")));
                                }
                                setters.push((name, arg_ty.unwrap_or_default()));
                            }
                        }
                        if setters != want_fields {
                            sink.add("setters-differ-from-animated-fields", rank, || mk(format!("setters {:?}, animated fields {:?}", setters, want_fields)));
                        }
                        let vf = t(im);
                        let vf_set: Vec<String> = captures(&vf, "std::option::Option::Some(values.");
                        if vf_set != want_names {
                            sink.add("values_from-copies-wrong-fields", rank, || mk(format!("values_from copies {:?}, animated fields {:?}", vf_set, want_names)));
                        }
                        if !vf.contains(&format!("values:&{}", if sh.modpath { "ext::RemoteW" } else if sh.remote { "RemoteW" } else { "W" })) {
                            sink.add("values_from-target", rank, || mk("values_from does not take the target type".into()));
                        }
                    }
                    _ => {}
                }
            }
            _ => {}
        }
    }
    for (seen, what) in [(seen_animate, "impl Animate"), (seen_tl_struct, "timeline struct"), (seen_tl_impl, "impl Timeline"), (seen_data, "keyframe data struct"), (seen_builder_struct, "keyframe builder struct"), (seen_builder_impl, "keyframe builder impl")] {
        if !seen {
            sink.add(&format!("missing-item:{}", what.replace(' ', "-")), rank, || mk(format!("{what} not generated")));
        }
    }
}

/// Decodes shape number `idx` among the shapes with exactly n fields.
fn decode(n: usize, mut idx: u64, ntypes: usize) -> Shape {
    let idx0 = idx;
    let remote = idx % 2 == 1;
    idx /= 2;
    let vis = (idx % 3) as usize;
    idx /= 3;
    let mut fields = vec![];
    for i in 0..n {
        let a = idx % 2 == 1;
        idx /= 2;
        let ty = (idx % ntypes as u64) as usize;
        idx /= ntypes as u64;
        fields.push((ty, a, (i + vis) % 3));
    }
    // decorations rotate with the shape number so that every enumerated size carries all of them
    let seed = (idx0 / 6) as usize;
    let deco: Vec<u8> = (0..n).map(|i| if (seed + i) % 3 == 0 { 0 } else { ((seed / 3 + i * 2) % 5) as u8 }).collect();
    Shape { fields, vis, remote, deco, sdeco: (seed % 3) as u8, modpath: remote && seed % 2 == 1 }
}

fn count(n: usize, ntypes: usize) -> u64 {
    6 * (2 * ntypes as u64).pow(n as u32)
}

const PRELUDE: &str = r#"
#![allow(warnings)]
use mina::prelude::*;

pub struct Absent;
pub trait NoSetter: Sized {
NOSETTER_METHODS
}
impl<T> NoSetter for T {}
pub trait Presence { fn present(&self) -> bool; }
impl Presence for Absent { fn present(&self) -> bool { false } }

pub struct Report { pub checks: u64 }
impl Report {
    pub fn bad(&mut self, id: usize, what: String) { println!("MISMATCH {id} {what}"); }
}

/// Linear reference: frames (pos, value) sorted; synthetic 0% (default 0) and implicit 100% frames.
pub fn ref_value(frames: &[(f64, f64)], q: f64) -> f64 {
    let mut fr: Vec<(f64, f64)> = vec![];
    if frames[0].0 > 0.0 { fr.push((0.0, 0.0)); }
    fr.extend_from_slice(frames);
    let last = *fr.last().unwrap();
    if last.0 < 1.0 { fr.push((1.0, last.1)); }
    let mut i = 0;
    for (j, f) in fr.iter().enumerate() { if f.0 <= q { i = j; } }
    if i == fr.len() - 1 { return fr[i].1; }
    let (p0, v0) = fr[i]; let (p1, v1) = fr[i + 1];
    v0 + (v1 - v0) * (q - p0) / (p1 - p0)
}

/// position for cycle 2, delay 0.5, Times(1), no reverse
pub fn ref_pos(t: f64) -> f64 {
    let td = t - 0.5;
    if td < 0.0 { return 0.0; }
    if td > 4.0 { return 1.0; }
    let r = td % 2.0; let q = ((td - r) / 2.0).round();
    if r == 0.0 && q >= 1.0 { 1.0 } else { r / 2.0 }
}
"#;

fn prelude() -> String {
    let methods: String = (0..40).map(|i| format!("    fn f{i}<X>(self, _x: X) -> Absent {{ Absent }}\n")).collect();
    PRELUDE.replace("NOSETTER_METHODS\n", &methods)
}

/// Structs with many fields (two-digit field indices, more fields than any small bound): 8, 12, 20, 33
/// fields x marker patterns {none, all, even, first only, last only, one in the middle} x {local, remote}.
fn wide_shapes() -> Vec<Shape> {
    let mut v = vec![];
    for &n in &[8usize, 12, 20, 33] {
        for pat in 0..6usize {
            for remote in [false, true] {
                let mid = if n > 10 { 10 } else { n / 2 };
                let fields = (0..n)
                    .map(|i| {
                        let a = match pat {
                            0 => false,
                            1 => true,
                            2 => i % 2 == 0,
                            3 => i == 0,
                            4 => i == n - 1,
                            _ => i == mid,
                        };
                        (i % 6, a, i % 3)
                    })
                    .collect();
                v.push(Shape { fields, vis: n % 3, remote, deco: (0..n).map(|i| if i % 4 == 1 { 1 } else { 0 }).collect(), sdeco: 0, modpath: false });
            }
        }
    }
    // one field of every numeric type the library implements Lerp for
    for pat in 0..3usize {
        for remote in [false, true] {
            let fields = (0..11usize).map(|i| (i, match pat { 0 => false, 1 => i % 2 == 1, _ => i >= 6 }, i % 3)).collect();
            v.push(Shape { fields, vis: 1, remote, deco: vec![0; 11], sdeco: 0, modpath: false });
        }
    }
    v
}

fn gen_module(id: usize, sh: &Shape) -> String {
    let n = sh.fields.len();
    let anim = sh.animated();
    let ty = |i: usize| TYPES[sh.fields[i].0];
    let mut s = format!("mod s{id} {{\n    use super::*;\n");
    if sh.remote {
        if sh.modpath {
            s += "    pub mod ext {\n";
        }
        s += "    #[derive(Clone, Debug, Default, PartialEq)]\n    pub struct RemoteW { ";
        for i in 0..n {
            s += &format!("pub f{i}: {}, ", ty(i));
        }
        s += "}\n";
        if sh.modpath {
            s += "    }\n    use ext::RemoteW;\n";
        }
        s += "    #[derive(Animate)]\n    ";
    } else if id % 2 == 1 {
        // every other local struct has a hand-written Default with non-zero values: the implicit 0% frame of a
        // property comes from the property TYPE's default, not from the struct's
        s += "    #[derive(Animate, Clone, Debug, PartialEq)]\n    ";
    } else {
        s += "    #[derive(Animate, Clone, Debug, Default, PartialEq)]\n    ";
    }
    s += &sh.decl();
    s += "\n";
    let r = sh.target();
    let w = sh.name();
    if !sh.remote && id % 2 == 1 {
        s += &format!("    impl Default for {w} {{ fn default() -> Self {{ {w} {{ {} }} }} }}\n", (0..n).map(|i| format!("f{i}: 9 as {}", ty(i))).collect::<Vec<_>>().join(", "));
    }
    s += &format!("    impl Presence for {r}KeyframeBuilder {{ fn present(&self) -> bool {{ true }} }}\n");
    s += &format!("    pub fn run(r: &mut Report) {{\n        let id = {id}usize;\n");
    // (1) setter presence
    for i in 0..n {
        let want = anim.contains(&i);
        s += &format!("        r.checks += 1; if {w}::keyframe(0.5).f{i}(1 as {}).present() != {want} {{ r.bad(id, format!(\"setter f{i} present = {{}} but animated = {want}\", !{want})); }}\n", ty(i));
    }
    // (2) keyframe_from copies exactly the animated fields
    let lit = |base: usize, i: usize| format!("{} as {}", base + i, ty(i));
    s += &format!("        let v = {r} {{ {} }};\n", (0..n).map(|i| format!("f{i}: {}", lit(3, i))).collect::<Vec<_>>().join(", "));
    s += &format!("        let sentinel = {r} {{ {} }};\n", (0..n).map(|i| format!("f{i}: {}", lit(77, i))).collect::<Vec<_>>().join(", "));
    s += &format!("        let tl = {w}::timeline().keyframe({w}::keyframe_from(&v, 1.0)).build();\n        let mut t = sentinel.clone();\n        tl.update(&mut t, 1.0);\n");
    for i in 0..n {
        let src = if anim.contains(&i) { "v" } else { "sentinel" };
        s += &format!("        r.checks += 1; if t.f{i} != {src}.f{i} {{ r.bad(id, format!(\"keyframe_from/update: f{i} = {{:?}}, expected {{:?}} ({})\", t.f{i}, {src}.f{i})); }}\n", if anim.contains(&i) { "animated: copied value" } else { "not animated: untouched" });
    }
    // (2a) ... whatever their values: a source struct holding zeros (the types' defaults), copied at 50% between
    // keyframes with other values, keys every animated field at 50% with 0
    {
        s += &format!("        let zero = {r} {{ {} }};\n", (0..n).map(|i| format!("f{i}: 0 as {}", ty(i))).collect::<Vec<_>>().join(", "));
        let all = |v: usize| anim.iter().map(|&i| format!(".f{i}({v} as {})", ty(i))).collect::<String>();
        s += &format!("        let tl = {w}::timeline().duration_seconds(1.0).keyframe({w}::keyframe(0.0){}).keyframe({w}::keyframe_from(&zero, 0.5)).keyframe({w}::keyframe(1.0){}).build();\n        let mut t = sentinel.clone();\n        tl.update(&mut t, 0.5);\n", all(40), all(80));
        for &i in &anim {
            s += &format!("        r.checks += 1; if t.f{i} != 0 as {} {{ r.bad(id, format!(\"keyframe_from of a zero-valued source at 50%: f{i} = {{:?}} at t=0.5, expected 0\", t.f{i})); }}\n", ty(i));
        }
    }
    // (2b) a setter called after keyframe_from, or twice, overrides the earlier value
    {
        let f = anim[0];
        let fty = ty(f);
        s += &format!("        let tl = {w}::timeline().keyframe({w}::keyframe_from(&v, 1.0).f{f}(55 as {fty})).build();\n        let mut t = sentinel.clone();\n        tl.update(&mut t, 1.0);\n        r.checks += 1; if t.f{f} != 55 as {fty} {{ r.bad(id, format!(\"keyframe_from then setter: f{f} = {{:?}}, expected 55\", t.f{f})); }}\n");
        s += &format!("        let tl = {w}::timeline().keyframe({w}::keyframe(1.0).f{f}(1 as {fty}).f{f}(56 as {fty})).build();\n        let mut t = sentinel.clone();\n        tl.update(&mut t, 1.0);\n        r.checks += 1; if t.f{f} != 56 as {fty} {{ r.bad(id, format!(\"keyframe_from: setter called twice: f{f} = {{:?}}, expected 56\", t.f{f})); }}\n");
    }
    // (2c) an explicit Easing::Linear on a keyframe is an easing like any other (not "unset"): under the default
    // InQuad the segment it starts is linear
    {
        let f = anim[0];
        let fty = ty(f);
        s += &format!("        let tl = {w}::timeline().duration_seconds(1.0).default_easing(Easing::InQuad).keyframe({w}::keyframe(0.0).f{f}(0 as {fty}).easing(Easing::Linear)).keyframe({w}::keyframe(1.0).f{f}(40 as {fty})).build();\n        let mut t = sentinel.clone();\n        tl.update(&mut t, 0.5);\n        r.checks += 1; if ((t.f{f} as f64) - 20.0).abs() > 1e-3 {{ r.bad(id, format!(\"t=0.5: explicit Linear keyframe easing under default InQuad: f{f} = {{:?}}, reference 20\", t.f{f})); }}\n");
    }
    // (2e) a field whose first keyframe lies after 0% and carries its own easing: the lead-in from the type's default
    // value uses the timeline's default easing (Linear here), the keyframe's easing only applies after it
    {
        let f = anim[0];
        let fty = ty(f);
        s += &format!("        let tl = {w}::timeline().duration_seconds(1.0).keyframe({w}::keyframe(0.5).f{f}(40 as {fty}).easing(Easing::InQuint)).keyframe({w}::keyframe(1.0).f{f}(8 as {fty})).build();\n        for (time, want) in [(0.125f32, 10.0f64), (0.25, 20.0), (0.375, 30.0), (0.5, 40.0), (0.75, 40.0 - 32.0 * mina::EasingFunction::calc(&Easing::InQuint, 0.5) as f64), (1.0, 8.0)] {{ let mut t = sentinel.clone(); tl.update(&mut t, time); r.checks += 1; if ((t.f{f} as f64) - want).abs() > 0.51 {{ r.bad(id, format!(\"first keyframe at 50% with its own easing InQuint, default easing Linear, t={{time:?}}: f{f} = {{:?}}, reference {{want}}\", t.f{f})); }} }}\n");
    }
    // (2g) a keyframe that carries an easing but does not define the field takes no part in that field's animation:
    // neither its position nor its easing
    {
        let f = anim[0];
        let fty = ty(f);
        let other = if anim.len() > 1 { format!(".f{}(9 as {})", anim[1], ty(anim[1])) } else { String::new() };
        s += &format!("        let tl = {w}::timeline().duration_seconds(1.0).keyframe({w}::keyframe(0.0).f{f}(0 as {fty})).keyframe({w}::keyframe(0.25){other}.easing(Easing::InQuint)).keyframe({w}::keyframe(0.5).f{f}(40 as {fty})).keyframe({w}::keyframe(1.0).f{f}(80 as {fty})).build();\n        for (time, want) in [(0.125f32, 10.0f64), (0.25, 20.0), (0.375, 30.0), (0.5, 40.0), (0.625, 50.0), (0.75, 60.0), (0.875, 70.0), (1.0, 80.0)] {{ let mut t = sentinel.clone(); tl.update(&mut t, time); r.checks += 1; if ((t.f{f} as f64) - want).abs() > 0.51 {{ r.bad(id, format!(\"a 25% keyframe with easing InQuint that does not define f{f}, t={{time:?}}: f{f} = {{:?}}, reference {{want}} (linear)\", t.f{f})); }} }}\n");
    }
    // (2h) a reversing timeline with three keyframes rests, after its end, on the ORIGINAL 0% keyframe
    {
        let f = anim[0];
        let fty = ty(f);
        s += &format!("        let tl = {w}::timeline().duration_seconds(2.0).reverse(true).keyframe({w}::keyframe(0.0).f{f}(4 as {fty})).keyframe({w}::keyframe(0.5).f{f}(10 as {fty})).keyframe({w}::keyframe(1.0).f{f}(40 as {fty})).build();\n        for (time, want) in [(0.5f32, 10.0f64), (1.0, 40.0), (1.5, 10.0), (2.0, 4.0), (2.5, 4.0), (100.0, 4.0)] {{ let mut t = sentinel.clone(); tl.update(&mut t, time); r.checks += 1; if ((t.f{f} as f64) - want).abs() > 0.51 {{ r.bad(id, format!(\"reversing 2 s timeline with keyframes 4 / 10 / 40, t={{time:?}}: f{f} = {{:?}}, reference {{want}}\", t.f{f})); }} }}\n");
    }
    // (2d) a negative delay shifts the start before time 0: negative times after the shifted start are inside the
    // animation, earlier ones rest at the 0% keyframe
    {
        let f = anim[0];
        let fty = ty(f);
        s += &format!("        let tl = {w}::timeline().duration_seconds(4.0).delay_seconds(-2.0).keyframe({w}::keyframe(0.0).f{f}(0 as {fty})).keyframe({w}::keyframe(1.0).f{f}(40 as {fty})).build();\n        for (time, want) in [(-3.0f32, 0.0f64), (-2.0, 0.0), (-1.5, 5.0), (-1.0, 10.0), (-0.5, 15.0), (-0.0, 20.0), (0.0, 20.0), (1.0, 30.0), (2.0, 40.0), (3.0, 40.0)] {{ let mut t = sentinel.clone(); tl.update(&mut t, time); r.checks += 1; if ((t.f{f} as f64) - want).abs() > 1e-3 {{ r.bad(id, format!(\"negative delay -2 s, cycle 4 s, t={{time:?}}: f{f} = {{:?}}, reference {{want}}\", t.f{f})); }} }}\n");
    }
    // (3) per-field interpolation against the linear reference; (4) metadata
    s += &format!("        let tl = {w}::timeline().duration_seconds(2.0).delay_seconds(0.5).repeat(Repeat::Times(1))\n");
    let mut frames: Vec<Vec<(f64, f64)>> = vec![vec![]; n];
    // odd shape numbers give every (position, field) its own keyframe, so several keyframes share a
    // position (each defining a different field); even ones group the fields of a position in one keyframe
    let split = id % 2 == 1;
    for (slot, &p) in [0.0f64, 0.25, 0.5, 0.75, 1.0].iter().enumerate() {
        let mut kf = format!("            .keyframe({w}::keyframe({p:?})");
        let mut any = false;
        for &i in &anim {
            // field i is keyframed at slots (i % 3) + 1 and, for even i, at slot 4 (100%)
            let hit = slot == (i % 3) + 1 || (slot == 4 && i % 2 == 0) || (slot == 0 && i % 4 == 3);
            if hit {
                let val = 10 + 7 * slot + i;
                if split {
                    s += &format!("            .keyframe({w}::keyframe({p:?}).f{i}({} as {}))\n", val, ty(i));
                } else {
                    kf += &format!(".f{i}({} as {})", val, ty(i));
                    any = true;
                }
                frames[i].push((p, val as f64));
            }
        }
        kf += ")\n";
        if any {
            s += &kf;
        }
    }
    s += "            .build();\n";
    // a cycle far below f32::EPSILON seconds is still a positive duration and is reported as configured
    s += &format!("        {{ let tiny = {w}::timeline().duration_seconds(5.9604645e-8).repeat(Repeat::Times(1)).build(); r.checks += 2; if tiny.cycle_duration() != Some(5.9604645e-8) || tiny.duration() != 1.1920929e-7 {{ r.bad(id, format!(\"metadata: cycle 2^-24 s reported as {{:?}}, total {{}}\", tiny.cycle_duration(), tiny.duration())); }} }}\n");
    s += &format!("        {{ let z = {w}::timeline().duration_seconds(2.0).repeat(Repeat::Times(0)).build(); r.checks += 2; if z.repeat() != Repeat::Times(0) || z.duration() != 2.0 {{ r.bad(id, format!(\"metadata: repeat(Times(0)) reported as {{:?}}, total {{}}\", z.repeat(), z.duration())); }} }}\n");
    s += "        r.checks += 4;\n        if tl.delay() != 0.5 || tl.cycle_duration() != Some(2.0) || tl.repeat() != Repeat::Times(1) || tl.duration() != 4.5 { r.bad(id, format!(\"metadata: delay {} cycle {:?} repeat {:?} duration {}\", tl.delay(), tl.cycle_duration(), tl.repeat(), tl.duration())); }\n";
    s += "        for j in 0..=40 {\n            let time = j as f32 * 0.125;\n            let mut t = sentinel.clone();\n            tl.update(&mut t, time);\n            let q = ref_pos(time as f64);\n";
    for i in 0..n {
        if anim.contains(&i) {
            let fr = frames[i].iter().map(|(p, v)| format!("({p:?}, {v:?})")).collect::<Vec<_>>().join(", ");
            let int = !TYPES[sh.fields[i].0].starts_with('f');
            s += &format!("            r.checks += 1; {{ let want = ref_value(&[{fr}], q); if ((t.f{i} as f64) - want).abs() > {} {{ r.bad(id, format!(\"t={{time}}: f{i} = {{:?}}, reference {{}}\", t.f{i}, want)); }} }}\n", if int { "0.5 + 1e-3" } else { "1e-3" });
        } else {
            s += &format!("            r.checks += 1; if t.f{i} != sentinel.f{i} {{ r.bad(id, format!(\"t={{time}}: un-animated f{i} changed to {{:?}}\", t.f{i})); }}\n");
        }
    }
    s += "        }\n";
    // (5) a stepped animation of the first animated field: 40 holds, each written as two keyframes, neighbouring
    // holds meeting in two tied keyframes; all end-of-hold keyframes are added before all start-of-hold ones
    let f = anim[0];
    let fty = ty(f);
    s += &format!("        let mut b = {w}::timeline().duration_seconds(1.0);\n");
    s += &format!("        for i in 0..40u32 {{ b = b.keyframe({w}::keyframe((i + 1) as f32 / 40.0).f{f}(((i * 7) % 50) as {fty})); }}\n");
    s += &format!("        for i in 0..40u32 {{ b = b.keyframe({w}::keyframe(i as f32 / 40.0).f{f}(((i * 7) % 50) as {fty})); }}\n");
    s += "        let tl = b.build();\n";
    s += &format!("        for i in 0..40u32 {{ let mut t = sentinel.clone(); tl.update(&mut t, (i as f32 + 0.5) / 40.0); r.checks += 1; if ((t.f{f} as f64) - ((i * 7) % 50) as f64).abs() > 1e-3 {{ r.bad(id, format!(\"stepped: inside hold {{i}} f{f} = {{:?}}, expected {{}}\", t.f{f}, (i * 7) % 50)); }} }}\n");
    s += "    }\n}\n";
    s
}

/// Field names that coincide with identifiers the generated code (or the builder API) uses itself. All of them are
/// accepted by the derive on the pinned tree (`target` and `new` are not and are left out): a struct may call its
/// fields whatever it likes.
const FIELD_NAMES: [&str; 36] = [
    "normalized_time", "frame_index", "enable_start_override", "time", "values", "value", "data", "timescale", "boundary_times", "timeline", "keyframe", "builder",
    "args", "config", "index", "start", "end", "position", "duration", "delay", "repeat", "reverse", "default_easing", "easing", "build", "update", "self_", "t_a",
    "result", "lerp", "x0", "y1", "frames", "keyframes", "default", "clone",
];

/// One module per name: `struct W { a: f32, <name>: f32, b: i32 }` (all animated), in two field orders; every
/// field must interpolate linearly, also after start_with and through keyframe_from.
fn gen_names_bin() -> String {
    let mut src = prelude();
    let mut calls = String::new();
    for (i, name) in FIELD_NAMES.iter().enumerate() {
        for order in 0..2 {
            let id = 1000 + 2 * i + order;
            let fields = if order == 0 { format!("pub a: f32, pub {name}: f32, pub b: i32") } else { format!("pub {name}: f32, pub a: f32, pub b: i32") };
            src += &format!("mod n{id} {{\n    use super::*;\n    #[derive(Animate, Clone, Debug, Default, PartialEq)]\n    pub struct W {{ {fields} }}\n    pub fn run(r: &mut Report) {{\n        let id = {id}usize;\n");
            src += &format!("        let tl = W::timeline().duration_seconds(4.0).keyframe(W::keyframe(0.0).a(0.0).{name}(10.0).b(0)).keyframe(W::keyframe(1.0).a(1.0).{name}(20.0).b(100)).build();\n");
            src += &format!("        let from = W {{ a: 0.5, {name}: 30.0, b: 40 }};\n        let mut tls = W::timeline().duration_seconds(4.0).keyframe(W::keyframe_from(&W {{ a: 0.0, {name}: 10.0, b: 0 }}, 0.0)).keyframe(W::keyframe(1.0).a(1.0).{name}(20.0).b(100)).build();\n        tls.start_with(&from);\n");
            src += &format!("        for j in 0..=8 {{\n            let t = j as f32 * 0.5; let q = (t / 4.0) as f64;\n            let mut w = W {{ a: -1.0, {name}: -1.0, b: -1 }}; tl.update(&mut w, t);\n            r.checks += 1; if (w.a as f64 - q).abs() > 1e-5 || (w.{name} as f64 - (10.0 + 10.0 * q)).abs() > 1e-4 || (w.b as f64 - 100.0 * q).abs() > 0.5001 {{ r.bad(id, format!(\"name: field `{name}`: t={{t}}: {{:?}}, expected a={{}} {name}={{}} b={{}}\", w, q, 10.0 + 10.0 * q, 100.0 * q)); }}\n");
            src += &format!("            let mut w = W {{ a: -1.0, {name}: -1.0, b: -1 }}; tls.update(&mut w, t);\n            r.checks += 1; if (w.a as f64 - (0.5 + 0.5 * q)).abs() > 1e-5 || (w.{name} as f64 - (30.0 - 10.0 * q)).abs() > 1e-4 || (w.b as f64 - (40.0 + 60.0 * q)).abs() > 0.5001 {{ r.bad(id, format!(\"name: field `{name}` after start_with: t={{t}}: {{:?}}\", w)); }}\n        }}\n    }}\n}}\n");
            calls += &format!("    n{id}::run(&mut r);\n");
        }
    }
    src += &format!("fn main() {{\n    let mut r = Report {{ checks: 0 }};\n{calls}    println!(\"DONE {{}}\", r.checks);\n}}\n");
    src
}

fn layer_b(sel: &[Shape], sink: &mut VSink) -> (u64, u64) {
    let nbins = 8usize;
    let mut bins: Vec<String> = (0..nbins).map(|i| format!("c17b_{i}")).collect();
    bins.push("c17b_names".to_string());
    let dir = prepare_crate("c17b", &bins);
    write_if_changed(&dir.join("src").join("c17b_names.rs"), &gen_names_bin());
    for (bi, b) in bins.iter().enumerate().take(nbins) {
        let mut src = prelude();
        let mut calls = String::new();
        for (i, sh) in sel.iter().enumerate() {
            if i % nbins != bi {
                continue;
            }
            src += &gen_module(i, sh);
            calls += &format!("    if std::panic::catch_unwind(std::panic::AssertUnwindSafe(|| s{i}::run(&mut r))).is_err() {{ r.bad({i}, \"a check of this shape panicked (see stderr of the shape binary)\".to_string()); }}\n");
        }
        src += &format!("fn main() {{\n    let mut r = Report {{ checks: 0 }};\n{calls}    println!(\"DONE {{}}\", r.checks);\n}}\n");
        write_if_changed(&dir.join("src").join(format!("{b}.rs")), &src);
    }
    let t0 = std::time::Instant::now();
    let refs: Vec<&str> = bins.iter().map(|s| s.as_str()).collect();
    let (ok, err) = cargo_build(&dir, &refs);
    if !ok {
        let first = err.lines().filter(|l| l.starts_with("error")).take(3).collect::<Vec<_>>().join(" | ");
        sink.add("compiled:supported-shapes-do-not-compile", 0, || (format!("generated shape family failed to compile: {first}"), json!({"crate": dir.display().to_string(), "stderr_head": err.lines().take(60).collect::<Vec<_>>().join("\n")})));
        return (0, 0);
    }
    eprintln!("[C17] layer B: {} struct shapes compiled in {:.1}s", sel.len(), t0.elapsed().as_secs_f64());
    let (mut checks, mut done) = (0u64, 0u64);
    for b in &bins {
        let (ok, out) = run_bin(b);
        if !ok {
            sink.add("compiled:shape-binary-crashed", 1, || (format!("{b} exited abnormally"), json!({"bin": b})));
        }
        for l in out.lines() {
            if let Some(rest) = l.strip_prefix("MISMATCH ") {
                let (id, what) = rest.split_once(' ').unwrap_or((rest, ""));
                let i: usize = id.parse().unwrap_or(0);
                if what.starts_with("name:") {
                    sink.add("compiled:field-name-collides-with-generated-code", 5 + i as u64, || (format!("`#[derive(Animate)] struct W {{ a: f32, <name>: f32, b: i32 }}`: {what}"), json!({"declaration": "#[derive(Animate)] struct W { a: f32, <name>: f32, b: i32 }", "detail": what})));
                    continue;
                }
                let clause = if what.starts_with("setter") { "setter-presence" } else if what.starts_with("keyframe_from") { "keyframe_from" } else if what.starts_with("metadata") { "metadata" } else if what.contains("un-animated") { "unanimated-field-touched" } else if what.starts_with("stepped") { "stepped-animation" } else { "evaluation" };
                sink.add(&format!("compiled:{clause}"), 10 + i as u64, || (format!("`#[derive(Animate)] {}`: {what}", sel[i].decl()), sel[i].to_json()));
            } else if let Some(n) = l.strip_prefix("DONE ") {
                checks += n.parse::<u64>().unwrap_or(0);
                done += 1;
            }
        }
    }
    if done != bins.len() as u64 {
        machinery_fail("a shape binary did not finish");
    }
    (sel.len() as u64, checks)
}

pub fn run(run: Run) -> ! {
    let thorough = run.is_thorough();
    // Layer A: all shapes with 1..4 fields over 6 types (quick); thorough adds 5 fields (6 types) and 6 fields (3 types)
    let mut plan: Vec<(usize, usize)> = vec![(1, 6), (2, 6), (3, 6), (4, 6)];
    if thorough {
        plan.push((5, 6));
        plan.push((6, 3));
    }
    const CH: u64 = 256;
    let mut items: Vec<(usize, usize, u64)> = vec![];
    for &(n, nt) in &plan {
        let c = count(n, nt);
        let mut s = 0;
        while s < c {
            items.push((n, nt, s));
            s += CH;
        }
    }
    struct Acc {
        sink: VSink,
        shapes: u64,
        samples: Vec<Value>,
    }
    let mut acc = par_fold(
        items.len(),
        || Acc { sink: VSink::new(), shapes: 0, samples: vec![] },
        |i, acc| {
            let (n, nt, s0) = items[i];
            for idx in s0..(s0 + CH).min(count(n, nt)) {
                let sh = decode(n, idx, nt);
                acc.shapes += 1;
                check_shape(&sh, (n as u64) << 40 | idx, &mut acc.sink);
                if acc.samples.is_empty() && n == 3 && idx % 1999 == 77 {
                    acc.samples.push(sh.to_json());
                }
            }
        },
        |a, b| {
            a.sink.merge(b.sink);
            a.shapes += b.shapes;
            if a.samples.len() < 3 {
                a.samples.extend(b.samples);
            }
        },
    );
    // exhaustive attribute-decoration family: 1..2 fields, types {f32,i32}, every #[animate] subset, every
    // per-field decoration (none / doc before / #[allow] before / doc after / #[cfg] before), 3 struct
    // decorations, local and remote
    let mut deco_shapes: Vec<Shape> = vec![];
    for n in 1..=2usize {
        let per = 20u64.pow(n as u32);
        for k in 0..per * 6 {
            let (mut x, sdeco, remote) = (k / 6, (k % 3) as u8, (k % 6) >= 3);
            let mut fields = vec![];
            let mut deco = vec![];
            for i in 0..n {
                let c = x % 20;
                x /= 20;
                fields.push((if c % 2 == 0 { 0 } else { 4 }, (c / 2) % 2 == 1, i % 3));
                deco.push((c / 4) as u8);
            }
            deco_shapes.push(Shape { fields, vis: (k % 3) as usize, remote, deco, sdeco, modpath: remote && (k / 6) % 2 == 1 });
        }
    }
    for (i, sh) in deco_shapes.iter().enumerate() {
        acc.shapes += 1;
        check_shape(sh, (9u64 << 40) | i as u64, &mut acc.sink);
    }
    // wide structs (Layer A: all; Layer B: three in quick, all in thorough)
    let wides = wide_shapes();
    for (i, sh) in wides.iter().enumerate() {
        acc.shapes += 1;
        check_shape(sh, (10u64 << 40) | i as u64, &mut acc.sink);
    }
    // Layer B selection: all (types x attribute subsets) with <= 2 fields, visibility/remote rotating (quick) or
    // all combinations (thorough), plus larger shapes at a stride
    let mut sel: Vec<Shape> = vec![];
    for n in 1..=2usize {
        let per = (2 * 6u64).pow(n as u32);
        for k in 0..per {
            if thorough {
                for vr in 0..6 {
                    sel.push(decode(n, k * 6 + vr, 6));
                }
            } else {
                sel.push(decode(n, k * 6 + (k % 6), 6));
            }
        }
    }
    for &(n, nt) in &plan {
        if n < 3 {
            continue;
        }
        let c = count(n, nt);
        let want = if thorough { 150 } else { 16 };
        let stride = (c / want).max(1) | 1;
        let mut k = stride / 2;
        while k < c {
            sel.push(decode(n, k, nt));
            k += stride;
        }
    }
    for (i, sh) in deco_shapes.iter().enumerate() {
        if i % (if thorough { 7 } else { 41 }) == 3 {
            sel.push(sh.clone());
        }
    }
    for (i, sh) in wides.iter().enumerate() {
        // quick: 12 fields / even markers / local, 33 fields / no marker / local, 12 fields / one marker at f10 / remote
        if thorough || i == 16 || i == 36 || i == 23 || i == 48 || i == 53 {
            sel.push(sh.clone());
        }
    }
    let shapes_a = acc.shapes;
    let (compiled, checks) = layer_b(&sel, &mut acc.sink);
    let mut cov = Map::new();
    cov.insert("states".into(), json!(shapes_a));
    cov.insert("transitions".into(), json!(shapes_a + checks));
    cov.insert("traces_validated_against_impl".into(), json!(compiled));
    cov.insert("programs".into(), json!(shapes_a));
    cov.insert("programs_compiled".into(), json!(compiled));
    cov.insert("evaluations".into(), json!(shapes_a + checks));
    cov.insert("distinct_nontrivial".into(), json!(shapes_a));
    cov.insert("rule".into(), json!(format!("Layer A (in-process expansion of the real derive source, parsed as a syn::File): ALL struct shapes with {} fields over types {{f32,f64,u8,i16,i32,u32}} x every #[animate] subset x struct visibility {{private,pub,pub(crate)}} (field visibilities rotated) x {{local, #[animate(remote = ...)] proxy (bare identifier or module-qualified path)}}, with doc comments / #[allow] / #[cfg] attributes before or after the #[animate] marker and on the struct (rotated over all shapes, and exhaustively for 1..2 fields), plus (Layer B) 72 structs whose middle or first field is named like an identifier of the generated code or of the builder API (normalized_time, frame_index, values, easing, build, ...), plus 48 WIDE structs (8, 12, 20, 33 fields x markers none/all/even/first/last/one-in-the-middle x local/remote; three of them compiled in quick, all in thorough) and 6 structs with one field of each of the 11 numeric types (f32 f64 u8 i16 i32 u32 i8 u16 i64 u64 usize; two compiled in quick); oracle: animated field set = attributed fields, or all if none is attributed; the keyframe builder has exactly one public setter per animated field with the field's type, keyframe data and t_<field> sub-timelines likewise, keyframe_from / values_from / update / start_with touch exactly the animated fields and are wired name-to-name, Target is the (remote) type, visibility copied, accessors forwarded to the time scale. Layer B: {} shapes compiled with the real derive: setter presence observed at run time (inherent-vs-trait method resolution), keyframe_from copies exactly the animated fields, also when the source holds zeros (and a later setter, or a second call of the same setter, overrides), un-animated fields keep sentinels, every animated field interpolates per a linear reference on a 41-point time grid; a keyframe that names Easing::Linear explicitly under a non-linear default easing interpolates linearly (in every other shape each (position, field) is its own keyframe, so keyframes share positions) (delay, two cycles, after the end), a timeline with a negative delay is evaluated at negative times on both sides of its shifted start, a field first keyed at 50% with its own easing has a lead-in eased by the default easing (every other local struct has a hand-written, non-zero Default: the implicit 0% frame is the property type's default, not the struct's), a keyframe with an easing that does not define the field leaves that field's segments alone, a reversing three-keyframe timeline rests on its original 0% keyframe after the end, metadata accessors return the configured values (also Times(0), which is not None), and a stepped animation of the first animated field (40 holds = 80 keyframes with tied positions, end-of-hold keyframes added before start-of-hold ones) shows each hold's value inside the hold ({} run-time checks)", if thorough { "1..5 (6 types) and 6 (3 types)" } else { "1..4" }, compiled, checks)));
    cov.insert("exhaustive".into(), json!(true));
    cov.insert("compiled_runtime_checks".into(), json!(checks));
    cov.insert("samples".into(), json!(acc.samples));
    run.finish(acc.sink, cov, vec!["generic structs, tuple structs and enums are outside the statement (unsupported by the derive)".into()])
}

pub fn replay(case: &Value) -> bool {
    let decl = case["declaration"].as_str().unwrap_or("").trim_start_matches("#[derive(Animate)] ").to_string();
    println!("{decl}");
    match expand_derive(&decl) {
        Ok(ts) => {
            println!("{ts}");
            true
        }
        Err(e) => {
            println!("rejected: {e}");
            false
        }
    }
}
