//! Layer B plumbing: write a generated crate under $VERIF_ROOT/work, build it with cargo (offline,
//! real proc-macro crate from /repo), run it and collect its report lines.

use std::path::{Path, PathBuf};
use std::process::Command;
use vlib::util::*;

pub fn work_dir(name: &str) -> PathBuf {
    let d = verif_root().join("work").join(name);
    let _ = std::fs::create_dir_all(d.join("src"));
    d
}

pub fn cargo_toml(name: &str, bins: &[String]) -> String {
    let mut s = format!(
        "[package]\nname = \"{name}\"\nversion = \"0.0.0\"\nedition = \"2021\"\npublish = false\n\n[dependencies]\nmina = {{ path = \"/repo\", features = [\"glam\", \"verif-hooks\"] }}\nenum-map = \"2.5.0\"\n\n[workspace]\n\n[profile.dev]\nopt-level = 1\ndebug = false\noverflow-checks = true\ndebug-assertions = true\n"
    );
    for b in bins {
        s += &format!("\n[[bin]]\nname = \"{b}\"\npath = \"src/{b}.rs\"\n");
    }
    s
}

pub fn write_if_changed(path: &Path, content: &str) {
    if std::fs::read_to_string(path).ok().as_deref() != Some(content) {
        std::fs::write(path, content).unwrap_or_else(|e| machinery_fail(&format!("write {}: {e}", path.display())));
    }
}

pub fn prepare_crate(name: &str, bins: &[String]) -> PathBuf {
    let d = work_dir(name);
    write_if_changed(&d.join("Cargo.toml"), &cargo_toml(name, bins));
    // resolution happens offline from the harness lock file (a superset of what is needed)
    let lock = verif_root().join("harness").join("Cargo.lock");
    if !d.join("Cargo.lock").exists() {
        let _ = std::fs::copy(&lock, d.join("Cargo.lock"));
    }
    d
}

fn target_dir() -> PathBuf {
    std::env::var("CARGO_TARGET_DIR").map(PathBuf::from).unwrap_or_else(|_| verif_root().join("target"))
}

/// Builds the given bins; returns (success, stderr).
pub fn cargo_build(dir: &Path, bins: &[&str]) -> (bool, String) {
    let mut c = Command::new("cargo");
    c.arg("build").arg("--offline").arg("-q").arg("--manifest-path").arg(dir.join("Cargo.toml"));
    for b in bins {
        c.arg("--bin").arg(b);
    }
    c.env("CARGO_TARGET_DIR", target_dir()).env("CARGO_NET_OFFLINE", "true");
    let out = c.output().unwrap_or_else(|e| machinery_fail(&format!("cannot run cargo: {e}")));
    (out.status.success(), String::from_utf8_lossy(&out.stderr).to_string())
}

pub fn run_bin(bin: &str) -> (bool, String) {
    let p = target_dir().join("debug").join(bin);
    let out = Command::new(&p).output().unwrap_or_else(|e| machinery_fail(&format!("cannot run {}: {e}", p.display())));
    (out.status.success(), String::from_utf8_lossy(&out.stdout).to_string())
}
