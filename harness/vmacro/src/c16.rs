//! C16 — `animator!` produces exactly the animator the builder API would.

use crate::expand::expand_animator;
use crate::genrun::*;
use crate::gt::*;
use crate::norm::*;
use serde_json::{json, Map, Value};
use vlib::util::*;

#[derive(Clone, Debug)]
enum DefS {
    Absent,
    StateOnly(&'static str),
    Inline(&'static str, Vec<(&'static str, &'static str)>, &'static str),
    Expr(&'static str, &'static str),
}

#[derive(Clone, Debug)]
struct ArmS {
    states: Vec<&'static str>,
    /// members (1 = plain timeline, >1 or bracketed = merged list)
    members: Vec<(String, TlS)>,
    bracketed: bool,
}

#[derive(Clone, Debug)]
struct AnimS {
    def: DefS,
    arms: Vec<ArmS>,
    trailing_comma: bool,
}

const STATES: [&str; 3] = ["St::A", "St::B", "St::C"];

fn kf_default(pos: usize) -> KfS {
    KfS { pos: Num { text: POSITIONS[pos].0, exact: POSITIONS[pos].1 }, body: BodyS::Default, body_text: "default" }
}

/// Timeline pool for animator arms (all literals exactly representable, see DESIGN C16).
fn tl_pool() -> Vec<(String, TlS)> {
    let mut v: Vec<TlS> = vec![];
    v.push(make(Some(0), None, None, false, None, &[(1, 0)])); // 1s to {a:1.0}
    let mut t = make(Some(2), None, None, false, Some(0), &[(0, 1), (1, 2)]); // 0.5s OutQuad from {a,k} to {k}
    v.push(t.clone());
    t = make(Some(8), Some(1), None, false, None, &[]); // for 2s after 250ms to default
    t.kfs.push(kf_default(1));
    v.push(t.clone());
    t = make(Some(0), None, Some(2), true, None, &[]); // 1s infinite reverse from default 25% {k:3,}
    t.kfs.push(kf_default(0));
    t.kfs.push(make(None, None, None, false, None, &[(4, 2)]).kfs[0].clone());
    v.push(t.clone());
    t = make(Some(4), None, None, false, None, &[(0, 2), (4, 0)]); // 250ms from {k:3,} 25% {a:1.0} to default
    t.kfs.push(kf_default(1));
    v.push(t.clone());
    v.push(make(Some(2), None, Some(0), false, None, &[(1, 1)])); // 0.5s 1x to {a:2.0,k:7}
    v.push(make(None, None, None, false, None, &[(1, 0)])); // to {a:1.0}
    v.push(make(Some(0), Some(2), None, false, Some(1), &[(0, 0), (1, 1)]));
    // keyframe-less timelines: the state still has a timeline (is_ended, pause/resume behave accordingly)
    v.push(make(Some(8), None, None, false, None, &[])); // for 2s
    v.push(make(Some(0), Some(1), None, false, None, &[])); // 1s after 250ms
    // same timing as pool[0] and a property in common with it (members of one merged list that are in
    // lockstep: the later member must still win), and another same-timing member with a different property
    v.push(make(Some(0), None, None, false, None, &[(1, 1)])); // 1s to {a:2.0,k:7}
    v.push(make(Some(0), None, None, false, None, &[(1, 2)])); // 1s to {k:3,}
    // two keyframes at the same position, one in keyword and one in percent form, written percent-first at the
    // start and keyword-first at the end (tied keyframes keep the order in which they were written)
    v.push(make(Some(0), None, None, false, None, &[(2, 0), (0, 1), (1, 2)])); // 1s 0% {a:1.0} from {a:2.0,k:7} to {k:3,}
    v.push(make(Some(2), None, None, false, None, &[(0, 2), (1, 0), (6, 1)])); // 0.5s from {k:3,} to {a:1.0} 100% {a:2.0,k:7}
    let mut out: Vec<(String, TlS)> = v.into_iter().map(|s| (s.render(&s.canonical_order()), s)).collect();
    // arguments in another order than the canonical one: the easing path written after the keyframes, the duration last
    let t = make(Some(0), Some(1), None, false, Some(0), &[(0, 0), (1, 1)]); // from {a:1.0} to {a:2.0,k:7} Easing::OutQuad after 250ms 1s
    out.push((t.render(&[Item::K(0), Item::K(1), Item::E, Item::L, Item::D]), t));
    out
}

fn def_options() -> Vec<DefS> {
    let mut v = vec![DefS::Absent];
    for s in STATES {
        v.push(DefS::StateOnly(s));
        v.push(DefS::Inline(s, vec![("a", "4.0")], "{ a: 4.0 }"));
        v.push(DefS::Inline(s, vec![("a", "-2.5"), ("k", "40")], "{ a: -2.5, k: 40, }"));
        v.push(DefS::Inline(s, vec![], "{}"));
        v.push(DefS::Expr(s, "P { a: 6.0, k: 60 }"));
        v.push(DefS::Expr(s, "base_values()"));
    }
    v
}

fn state_sets() -> Vec<Vec<&'static str>> {
    vec![vec!["St::A"], vec!["St::B"], vec!["St::C"], vec!["St::A", "St::B"], vec!["St::C", "St::B"], vec!["St::A", "St::B", "St::C"]]
}

fn arm_options(thorough: bool) -> Vec<ArmS> {
    let pool = tl_pool();
    let mut tls: Vec<(Vec<(String, TlS)>, bool)> = pool.iter().map(|p| (vec![p.clone()], false)).collect();
    tls.push((vec![pool[0].clone(), pool[5].clone()], true));
    tls.push((vec![pool[3].clone(), pool[2].clone()], true));
    tls.push((vec![pool[1].clone()], true)); // bracketed single
    tls.push((vec![pool[8].clone(), pool[9].clone()], true)); // merged list of keyframe-less timelines
    tls.push((vec![pool[10].clone(), pool[0].clone()], true)); // two members in lockstep sharing property a
    tls.push((vec![pool[0].clone(), pool[5].clone(), pool[11].clone()], true)); // lockstep members around a differently timed one
    if thorough {
        tls.push((vec![pool[4].clone(), pool[0].clone(), pool[3].clone()], true));
        tls.push((vec![pool[6].clone(), pool[7].clone()], true));
    }
    let mut v = vec![];
    for ss in state_sets() {
        for (m, b) in &tls {
            v.push(ArmS { states: ss.clone(), members: m.clone(), bracketed: *b });
        }
    }
    v
}

impl AnimS {
    fn render(&self) -> String {
        let mut parts: Vec<String> = vec![];
        let def = match &self.def {
            DefS::Absent => None,
            DefS::StateOnly(s) => Some(format!("default({s})")),
            DefS::Inline(s, _, text) => Some(format!("default({s}, {text})")),
            DefS::Expr(s, e) => Some(format!("default({s}, {e})")),
        };
        for a in &self.arms {
            let tl = if a.bracketed { format!("[{}]", a.members.iter().map(|m| m.0.clone()).collect::<Vec<_>>().join(", ")) } else { a.members[0].0.clone() };
            parts.push(format!("{} => {}", a.states.join(" | "), tl));
        }
        let body = parts.join(", ");
        let tc = if self.trailing_comma && !self.arms.is_empty() { "," } else { "" };
        match def {
            Some(d) => format!("P {{ {d}, {body}{tc} }}"),
            None => format!("P {{ {body}{tc} }}"),
        }
    }

    /// Builder program of the documented reading (Rust source).
    fn builder_source(&self) -> String {
        let (state, values) = match &self.def {
            DefS::Absent => (None, "P::default()".to_string()),
            DefS::StateOnly(s) => (Some(*s), "P::default()".to_string()),
            DefS::Inline(s, fs, _) => (Some(*s), format!("{{ let mut v = P::default(); {} v }}", fs.iter().map(|(f, e)| format!("v.{f} = {e};")).collect::<String>())),
            DefS::Expr(s, e) => (Some(*s), e.to_string()),
        };
        let mut s = format!("{{ let default_values: P = {values}; StateAnimatorBuilder::new()");
        if let Some(st) = state {
            s += &format!(".from_state({st})");
        }
        s += ".from_values(default_values.clone())";
        for a in &self.arms {
            for st in &a.states {
                let tl = if a.members.len() == 1 && !a.bracketed {
                    a.members[0].1.builder_source("P")
                } else if a.members.len() == 1 {
                    // a bracketed single member is still a single timeline
                    a.members[0].1.builder_source("P")
                } else {
                    format!("MergedTimeline::of([{}])", a.members.iter().map(|m| m.1.builder_source("P")).collect::<Vec<_>>().join(", "))
                };
                s += &format!(".on({st}, {tl})");
            }
        }
        s + ".build() }"
    }
}

#[derive(Default)]
struct Acc {
    sink: VSink,
    blocks: u64,
    samples: Vec<Value>,
    distinct: std::collections::HashSet<u64>,
}

fn fnv(s: &str) -> u64 {
    let mut h: u64 = 0xcbf29ce484222325;
    for b in s.bytes() {
        h ^= b as u64;
        h = h.wrapping_mul(0x100000001b3);
    }
    h
}

fn norm_expr(s: &str) -> String {
    s.replace(' ', "")
}

fn check_block(a: &AnimS, rank: u64, acc: &mut Acc) {
    acc.blocks += 1;
    let src = a.render();
    let mk = |why: String| (format!("`animator!({src})`: {why}"), json!({"block": src}));
    let ts = match expand_animator(&src) {
        Ok(t) => t,
        Err(e) => {
            acc.sink.add("well-formed-block-rejected", rank, || mk(format!("rejected: {e}")));
            return;
        }
    };
    if acc.distinct.len() < 50_000 {
        acc.distinct.insert(fnv(&ts.to_string()));
    }
    let got = match parse_animator_tokens(ts.clone()) {
        Ok(g) => g,
        Err(e) => {
            acc.sink.add("expansion-not-an-animator-builder-program", rank, || mk(format!("{e}: {ts}")));
            return;
        }
    };
    // defaults and initial state
    let (want_state, want_def) = match &a.def {
        DefS::Absent => (None, DefaultsN::TypeDefault("P".into())),
        DefS::StateOnly(s) => (Some(norm_expr(s)), DefaultsN::TypeDefault("P".into())),
        DefS::Inline(s, fs, _) => (Some(norm_expr(s)), DefaultsN::Inline("P".into(), fs.iter().map(|(f, e)| (f.to_string(), norm_expr(e))).collect())),
        DefS::Expr(s, e) => (Some(norm_expr(s)), DefaultsN::Expr(norm_expr(e))),
    };
    if got.from_state != want_state {
        acc.sink.add("initial-state", rank, || mk(format!("from_state {:?}, default clause says {:?}", got.from_state, want_state)));
    }
    if got.defaults != want_def {
        acc.sink.add("initial-values", rank, || mk(format!("default values {:?}, default clause says {:?}", got.defaults, want_def)));
    }
    // arms
    let mut want_ons: Vec<(String, &ArmS)> = vec![];
    for arm in &a.arms {
        for st in &arm.states {
            want_ons.push((norm_expr(st), arm));
        }
    }
    if got.ons.len() != want_ons.len() {
        acc.sink.add("states-with-timeline", rank, || mk(format!("{} .on() calls for states {:?}, block installs {:?}", got.ons.len(), got.ons.iter().map(|o| o.0.clone()).collect::<Vec<_>>(), want_ons.iter().map(|o| o.0.clone()).collect::<Vec<_>>())));
        return;
    }
    for (i, ((gs, gt), (ws, arm))) in got.ons.iter().zip(&want_ons).enumerate() {
        if gs != ws {
            acc.sink.add("states-with-timeline", rank, || mk(format!(".on() #{i} is for {gs}, expected {ws}")));
            return;
        }
        let list: Vec<&TlN> = match gt {
            TlOrMerged::Single(t) => vec![t],
            TlOrMerged::Merged(v) => v.iter().collect(),
        };
        let merged_expected = arm.members.len() > 1;
        if matches!(gt, TlOrMerged::Merged(_)) != merged_expected || list.len() != arm.members.len() {
            acc.sink.add("arm-timeline-shape", rank, || mk(format!("state {gs}: {} timelines (merged: {}), arm has {} members", list.len(), matches!(gt, TlOrMerged::Merged(_)), arm.members.len())));
            return;
        }
        for (j, (g, (_, w))) in list.iter().zip(&arm.members).enumerate() {
            if let Err(why) = conforms(g, w, "P") {
                acc.sink.add("arm-timeline-differs", rank, || mk(format!("state {gs} member {j}: {why}")));
                return;
            }
        }
    }
}

const PRELUDE: &str = r#"
#![allow(warnings)]
use mina::prelude::*;

#[derive(Animate, Clone, Debug, Default, PartialEq)]
struct P { a: f32, k: i32 }

#[derive(Clone, Copy, Debug, Default, PartialEq, Eq, State)]
enum St { #[default] A, B, C }

fn base_values() -> P { P { a: 7.5, k: -3 } }

#[derive(Clone, Copy, Debug)]
enum Op { Adv(f32), Set(St) }
const OPS: [Op; 5] = [Op::Adv(0.25), Op::Adv(1.0), Op::Set(St::A), Op::Set(St::B), Op::Set(St::C)];

fn drive<A: StateAnimator<State = St, Values = P>, B: StateAnimator<State = St, Values = P>>(id: usize, mk_m: &dyn Fn() -> A, mk_b: &dyn Fn() -> B, steps: &mut u64, hists: &mut u64) {
    let n = OPS.len();
    let m0 = mk_m(); let b0 = mk_b();
    if m0.current_state() != b0.current_state() || m0.current_values() != b0.current_values() || m0.is_ended() != b0.is_ended() {
        println!("MISMATCH {id} initial: macro ({:?},{:?},{}) builder ({:?},{:?},{})", m0.current_state(), m0.current_values(), m0.is_ended(), b0.current_state(), b0.current_values(), b0.is_ended());
        return;
    }
    for depth in 1..=4usize {
        for code in 0..n.pow(depth as u32) {
            let mut m = mk_m(); let mut b = mk_b();
            let mut c = code; let mut hist = vec![];
            for _ in 0..depth { hist.push(OPS[c % n]); c /= n; }
            *hists += 1;
            for (i, op) in hist.iter().enumerate() {
                match op { Op::Adv(d) => { m.advance(*d); b.advance(*d); } Op::Set(s) => { m.set_state(s); b.set_state(s); } }
                *steps += 1;
                let same = m.current_state() == b.current_state() && m.is_ended() == b.is_ended()
                    && m.current_values().a.to_bits() == b.current_values().a.to_bits() && m.current_values().k == b.current_values().k;
                if !same {
                    println!("MISMATCH {id} after {:?}: macro ({:?},{:?},{}) builder ({:?},{:?},{})", &hist[..=i], m.current_state(), m.current_values(), m.is_ended(), b.current_state(), b.current_values(), b.is_ended());
                    return;
                }
            }
        }
    }
}
"#;

fn layer_b(sel: &[AnimS], acc: &mut Acc) -> (u64, u64, u64) {
    let nbins = 8usize;
    let bins: Vec<String> = (0..nbins).map(|i| format!("c16b_{i}")).collect();
    let dir = prepare_crate("c16b", &bins);
    for (bi, b) in bins.iter().enumerate() {
        let mut src = String::from(PRELUDE);
        let mut calls = String::new();
        for (i, a) in sel.iter().enumerate() {
            if i % nbins != bi {
                continue;
            }
            src += &format!("fn case_{i}(steps: &mut u64, hists: &mut u64) {{\n    let mk_m = || -> EnumStateAnimator<St, PTimeline> {{ animator!({}) }};\n    let mk_b = || -> EnumStateAnimator<St, PTimeline> {};\n    drive({i}, &mk_m, &mk_b, steps, hists);\n}}\n", a.render(), a.builder_source());
            calls += &format!("    case_{i}(&mut steps, &mut hists);\n");
        }
        src += &format!("fn main() {{\n    let (mut steps, mut hists) = (0u64, 0u64);\n{calls}    println!(\"DONE {{}} {{}}\", steps, hists);\n}}\n");
        write_if_changed(&dir.join("src").join(format!("{b}.rs")), &src);
    }
    let t0 = std::time::Instant::now();
    let refs: Vec<&str> = bins.iter().map(|s| s.as_str()).collect();
    let (ok, err) = cargo_build(&dir, &refs);
    if !ok {
        let first = err.lines().filter(|l| l.starts_with("error")).take(3).collect::<Vec<_>>().join(" | ");
        acc.sink.add("compiled:well-formed-family-does-not-compile", 0, || (format!("generated conformance crate failed to compile: {first}"), json!({"crate": dir.display().to_string(), "stderr_head": err.lines().take(60).collect::<Vec<_>>().join("\n")})));
        return (0, 0, 0);
    }
    eprintln!("[C16] layer B: {} animator blocks compiled in {:.1}s", sel.len(), t0.elapsed().as_secs_f64());
    let (mut steps, mut hists, mut done) = (0u64, 0u64, 0u64);
    for b in &bins {
        let (ok, out) = run_bin(b);
        if !ok {
            acc.sink.add("compiled:conformance-binary-crashed", 1, || (format!("{b} exited abnormally"), json!({"bin": b})));
        }
        for l in out.lines() {
            if let Some(rest) = l.strip_prefix("MISMATCH ") {
                let (id, what) = rest.split_once(' ').unwrap_or((rest, ""));
                let i: usize = id.parse().unwrap_or(0);
                let sig = if what.starts_with("initial") { "compiled:initial-state-or-values-differ" } else { "compiled:behaviour-differs-over-history" };
                acc.sink.add(sig, 10 + i as u64, || (format!("`animator!({})` vs builder twin: {what}", sel[i].render()), json!({"block": sel[i].render(), "builder": sel[i].builder_source()})));
            } else if let Some(n) = l.strip_prefix("DONE ") {
                let mut it = n.split(' ');
                steps += it.next().and_then(|x| x.parse::<u64>().ok()).unwrap_or(0);
                hists += it.next().and_then(|x| x.parse::<u64>().ok()).unwrap_or(0);
                done += 1;
            }
        }
    }
    if done != bins.len() as u64 {
        machinery_fail("a conformance binary did not finish");
    }
    (sel.len() as u64, steps, hists)
}

pub fn run(run: Run) -> ! {
    let thorough = run.is_thorough();
    let defs = def_options();
    let arms = arm_options(thorough);
    let na = arms.len();
    // Layer A: every default clause x every list of 0..2 arms (quick) / 0..3 arms (thorough, third arm from
    // a reduced option set) x trailing comma
    let small: Vec<usize> = (0..na).filter(|i| i % 5 == 0).collect();
    let mut lists: Vec<Vec<usize>> = vec![vec![]];
    for x in 0..na {
        lists.push(vec![x]);
        for y in 0..na {
            lists.push(vec![x, y]);
        }
    }
    for &x in &small {
        for &y in &small {
            for z in 0..na {
                if thorough || z % 3 == 0 {
                    lists.push(vec![x, y, z]);
                }
            }
        }
    }
    let nl = lists.len();
    let nd = defs.len();
    const CH: usize = 64;
    let chunks = (nl * nd + CH - 1) / CH;
    let mut acc = par_fold(
        chunks,
        Acc::default,
        |ci, acc| {
            for i in ci * CH..((ci + 1) * CH).min(nl * nd) {
                let (li, di) = (i / nd, i % nd);
                let a = AnimS { def: defs[di].clone(), arms: lists[li].iter().map(|&x| arms[x].clone()).collect(), trailing_comma: i % 2 == 1 };
                check_block(&a, (lists[li].len() as u64) << 40 | i as u64, acc);
                if acc.samples.is_empty() && i % 9973 == 777 {
                    acc.samples.push(json!({"block": format!("animator!({})", a.render()), "documented_reading_as_builder": a.builder_source()}));
                }
            }
        },
        |a, b| {
            a.sink.merge(b.sink);
            a.blocks += b.blocks;
            if a.samples.len() < 3 {
                a.samples.extend(b.samples);
            }
            if a.distinct.len() < 200_000 {
                a.distinct.extend(b.distinct);
            }
        },
    );
    // Layer B: covering family: every default clause with a fixed 3-arm block; every arm option alone with
    // two default clauses; multi-arm blocks at a stride
    let mut sel: Vec<AnimS> = vec![];
    for (di, d) in defs.iter().enumerate() {
        sel.push(AnimS { def: d.clone(), arms: vec![arms[di % na].clone(), arms[(di * 7 + 3) % na].clone(), arms[(di * 11 + 5) % na].clone()], trailing_comma: di % 2 == 0 });
    }
    for (ai, a) in arms.iter().enumerate() {
        sel.push(AnimS { def: defs[(ai * 3) % nd].clone(), arms: vec![a.clone()], trailing_comma: ai % 2 == 0 });
        sel.push(AnimS { def: DefS::Absent, arms: vec![a.clone(), arms[(ai + 13) % na].clone()], trailing_comma: false });
    }
    let stride = if thorough { 97 } else { 997 };
    for (li, l) in lists.iter().enumerate() {
        if li % stride == 0 && l.len() >= 2 {
            sel.push(AnimS { def: defs[li % nd].clone(), arms: l.iter().map(|&x| arms[x].clone()).collect(), trailing_comma: li % 2 == 0 });
        }
    }
    sel.push(AnimS { def: DefS::Absent, arms: vec![], trailing_comma: false });
    let a_blocks = acc.blocks;
    let (compiled, steps, hists) = layer_b(&sel, &mut acc);
    let mut cov = Map::new();
    cov.insert("states".into(), json!(a_blocks + hists));
    cov.insert("transitions".into(), json!(a_blocks + steps));
    cov.insert("traces_validated_against_impl".into(), json!(compiled));
    cov.insert("programs".into(), json!(a_blocks));
    cov.insert("programs_compiled".into(), json!(compiled));
    cov.insert("evaluations".into(), json!(a_blocks + steps));
    cov.insert("distinct_nontrivial".into(), json!(acc.distinct.len()));
    cov.insert("rule".into(), json!(format!("Layer A (in-process expansion of the real animator! source): {} default clauses (absent; default(S); default(S, {{inline fields}}) with 0/1/2 fields and trailing comma; default(S, struct expression); default(S, call expression); S in 3 states) x every list of 0..2 arms over {} arm options (state sets A, B, C, A|B, C|B, A|B|C x {} timelines incl. `to default`/`from default` keyframes, bracketed merged lists and a bracketed single) plus 3-arm lists over a reduced option set, with and without trailing comma; each expansion is parsed into an animator-builder program and compared with the documented reading (initial state, initial values, one .on per listed state in order, merged order, default bodies). Layer B: {} blocks compiled with the real macros; macro-built and builder-built animators driven by ALL histories of depth <= 4 over [advance 1/4, advance 1, set_state A/B/C]: state, values, is_ended bit-equal after every operation ({} histories, {} operations)", nd, na, na / 6, compiled, hists, steps)));
    cov.insert("exhaustive".into(), json!(true));
    cov.insert("compiled_histories".into(), json!(hists));
    cov.insert("samples".into(), json!(acc.samples));
    run.finish(acc.sink, cov, vec!["timelines inside arms are bound to the builder by C15; literals in the Layer B pool are exactly representable so bit-equality is sound".into()])
}

pub fn replay(case: &Value) -> bool {
    let s = case["block"].as_str().unwrap_or("");
    println!("block: animator!({s})");
    match expand_animator(s) {
        Ok(ts) => {
            println!("expansion: {ts}");
            println!("normalised: {:?}", parse_animator_tokens(ts));
            true
        }
        Err(e) => {
            println!("rejected: {e}");
            false
        }
    }
}
