fn main(){}
