mod c18;
mod c19;
mod common;

use vlib::util::*;

fn main() {
    let args: Vec<String> = std::env::args().skip(1).collect();
    if args.is_empty() {
        machinery_fail("usage: vbevy <id> [quick|thorough] [--replay <file>]");
    }
    if args[0] == "probe-order" {
        println!("chain_first={}", c19::probe_chain_first());
        return;
    }
    let id = args[0].to_uppercase();
    let mut tier = std::env::var("VERIF_TIER").unwrap_or_else(|_| "quick".into());
    let mut replay: Option<String> = None;
    let mut i = 1;
    while i < args.len() {
        match args[i].as_str() {
            "quick" | "thorough" => tier = args[i].clone(),
            "--replay" => {
                i += 1;
                replay = Some(args[i].clone());
            }
            other => machinery_fail(&format!("unknown argument {other}")),
        }
        i += 1;
    }
    silence_panics();
    if let Some(path) = replay {
        let txt = std::fs::read_to_string(&path).unwrap_or_else(|e| machinery_fail(&format!("read {path}: {e}")));
        let v: serde_json::Value = serde_json::from_str(&txt).unwrap_or_else(|e| machinery_fail(&format!("parse {path}: {e}")));
        let ok = match id.as_str() {
            "C18" => c18::replay(&v["case"]),
            "C19" => c19::replay(&v["case"]),
            _ => machinery_fail("no replay for this id"),
        };
        if ok {
            println!("replay: property holds on this case");
            std::process::exit(0);
        }
        println!("VIOLATION property={id} replay={path}");
        std::process::exit(1);
    }
    let run = Run::start(&id, &tier);
    match id.as_str() {
        "C18" => c18::run(run),
        "C19" => c19::run(run),
        _ => machinery_fail("unknown property id"),
    }
}
