//! C18 — Bevy Animator: time is conserved, state moves forward, the target lands on the final
//! values. E4: every frame-delta schedule x every per-entity control history x 12 timings on a
//! real headless App; rules R1-R9 checked per entity per frame.

use crate::common::*;
use bevy::prelude::*;
use bevy_mina::prelude::*;
use mina::prelude::*;
use serde_json::{json, Map, Value};
use std::time::Duration;
use vlib::util::*;

const DELTAS: [f64; 4] = [0.0, 1.0 / 512.0, 0.25, 8.0];

#[derive(Clone, Copy, Debug, PartialEq)]
enum Ctl {
    Nothing,
    Disable,
    Enable,
    Reset,
    SetT2,
    /// remove the target component from the entity (the animator stays)
    Detach,
    /// insert a fresh target component (initial values), whether or not one is present
    Attach,
    /// the documented seek recipe: `reset()` followed by an assignment to the public `timeline_position`
    /// (1/2 s: exactly the delay of the delayed timings; 3/2 s: at or past the end of the short ones)
    SeekHalf,
    SeekLate,
    /// only as the first control of a history: the animator is spawned WITHOUT a timeline (`Animator::new()`), the
    /// user sets `timeline_position` to 1/2 s and then gives it its timeline with `set_timeline` (documented: no
    /// reset, the animation continues from the current position)
    AdoptSeeked,
}
const CTLS: [Ctl; 5] = [Ctl::Nothing, Ctl::Disable, Ctl::Enable, Ctl::Reset, Ctl::SetT2];
const ALL_CTLS: [Ctl; 10] = [Ctl::Nothing, Ctl::Disable, Ctl::Enable, Ctl::Reset, Ctl::SetT2, Ctl::Detach, Ctl::Attach, Ctl::SeekHalf, Ctl::SeekLate, Ctl::AdoptSeeked];

fn timings() -> Vec<Tm> {
    let mut v = vec![];
    for delay in [0.0f32, 0.5] {
        for rep in [Rp::None, Rp::Times(1), Rp::Infinite] {
            for reverse in [false, true] {
                v.push(Tm { cycle: 1.0, delay, rep, reverse });
            }
        }
    }
    v
}

fn nd_timings() -> Vec<Tm> {
    vec![
        Tm { cycle: 0.3, delay: 0.0, rep: Rp::None, reverse: false },
        Tm { cycle: 0.1, delay: 0.2, rep: Rp::Times(1), reverse: false },
        Tm { cycle: 0.7, delay: 0.0, rep: Rp::None, reverse: true },
        Tm { cycle: 0.1, delay: 0.0, rep: Rp::Times(2), reverse: false },
        // delays whose sum with the total is rounded in f32 (fl(fl(delay + total) - delay) != total)
        Tm { cycle: 1.0, delay: 0.3, rep: Rp::None, reverse: false },
        Tm { cycle: 2.0, delay: 0.1, rep: Rp::None, reverse: false },
        Tm { cycle: 0.4, delay: 0.5, rep: Rp::None, reverse: false },
        Tm { cycle: 1.0, delay: 0.1, rep: Rp::Times(1), reverse: true },
    ]
}

const T2: Tm = Tm { cycle: 2.0, delay: 0.25, rep: Rp::None, reverse: false };

/// One animator configuration: a plain timeline (one part) or a MergedTimeline of two parts, the first
/// animating `x`, the second `n` (the Animator stores any boxed timeline, merged ones included).
#[derive(Clone, Debug, PartialEq)]
struct Cf {
    parts: Vec<Tm>,
}

impl Cf {
    fn plain(t: Tm) -> Cf {
        Cf { parts: vec![t] }
    }
    /// smallest component delay
    fn delay(&self) -> f32 {
        self.parts.iter().map(|t| t.delay).fold(f32::INFINITY, f32::min)
    }
    /// largest component total; None if any component repeats infinitely
    fn total(&self) -> Option<f32> {
        let mut m = f32::NEG_INFINITY;
        for t in &self.parts {
            m = m.max(t.total()?);
        }
        Some(m)
    }
    fn json(&self) -> Value {
        if self.parts.len() == 1 { self.parts[0].json() } else { json!({"merged": self.parts.iter().map(|t| t.json()).collect::<Vec<_>>()}) }
    }
    fn build(&self) -> Tl {
        if self.parts.len() == 1 {
            Tl::Plain(t1(&self.parts[0]))
        } else {
            let tm = |t: &Tm| C::timeline().duration_seconds(t.cycle).delay_seconds(t.delay).reverse(t.reverse).repeat(match t.rep {
                Rp::None => Repeat::None,
                Rp::Times(n) => Repeat::Times(n),
                Rp::Infinite => Repeat::Infinite,
            });
            let a = tm(&self.parts[0]).keyframe(C::keyframe(0.0).x(10.0)).keyframe(C::keyframe(1.0).x(20.0)).build();
            let b = tm(&self.parts[1]).keyframe(C::keyframe(0.0).n(-5)).keyframe(C::keyframe(1.0).n(5)).build();
            Tl::Merged(MergedTimeline::of([a, b]))
        }
    }
}

#[derive(Clone)]
enum Tl {
    Plain(CTimeline),
    Merged(MergedTimeline<CTimeline>),
}

impl Tl {
    fn animator(&self) -> Animator<C> {
        match self {
            Tl::Plain(t) => Animator::with_timeline(t.clone()),
            Tl::Merged(t) => Animator::with_timeline(t.clone()),
        }
    }
    fn set_on(&self, a: &mut Animator<C>) {
        match self {
            Tl::Plain(t) => a.set_timeline(t.clone()),
            Tl::Merged(t) => a.set_timeline(t.clone()),
        }
    }
    fn update(&self, c: &mut C, t: f32) {
        match self {
            Tl::Plain(x) => x.update(c, t),
            Tl::Merged(x) => x.update(c, t),
        }
    }
}

/// Merged configurations: components sharing one cycle length but staggered by delay and/or with different
/// repeat counts (so that no single component carries the smallest delay, the largest repeat and the end).
fn merged_cfs() -> Vec<Cf> {
    let t = |cycle, delay, rep, reverse| Tm { cycle, delay, rep, reverse };
    vec![
        Cf { parts: vec![t(1.0, 0.0, Rp::None, false), t(1.0, 1.0, Rp::None, false)] },
        Cf { parts: vec![t(0.5, 0.0, Rp::Times(2), false), t(0.5, 0.5, Rp::None, true)] },
        Cf { parts: vec![t(0.25, 0.0, Rp::Times(1), false), t(2.0, 0.5, Rp::None, false)] },
        Cf { parts: vec![t(1.0, 0.5, Rp::None, false), t(1.0, 0.0, Rp::Infinite, true)] },
    ]
}

fn t1(t: &Tm) -> CTimeline {
    timeline_for(t, 10.0, 20.0, -5, 5)
}
fn t2() -> CTimeline {
    timeline_for(&T2, 100.0, 200.0, 50, 60)
}

const CLOCK_MODES: [&str; 5] = ["untouched", "relative speed 2", "relative speed 1/2", "paused during odd frames", "paused during frames 1 and 2"];
thread_local! { static TMODE: std::cell::Cell<u8> = std::cell::Cell::new(0); }

#[derive(Default)]
struct Acc {
    sink: VSink,
    apps: u64,
    entity_frames: u64,
    rule_checks: u64,
    events: u64,
    nontrivial: u64,
    samples: Vec<Value>,
    outcomes: std::collections::HashSet<u64>,
}

fn merge(a: &mut Acc, b: Acc) {
    a.sink.merge(b.sink);
    a.apps += b.apps;
    a.entity_frames += b.entity_frames;
    a.rule_checks += b.rule_checks;
    a.events += b.events;
    a.nontrivial += b.nontrivial;
    if a.outcomes.len() < 100_000 {
        a.outcomes.extend(b.outcomes);
    }
    if a.samples.len() < 3 {
        a.samples.extend(b.samples);
    }
}

#[derive(Clone, Debug)]
struct Ent {
    e: Entity,
    cfg: usize,
    ctl: Vec<Ctl>,
    /// frame before which the entity was spawned
    born: usize,
    // model side
    on_t2: bool,
    ended_events_in_run: u32,
    entered_ended_in_run: bool,
    /// the target component was present in the frame in which Ended was entered and has not been
    /// detached / replaced since (only then can it be expected to hold the terminal values)
    comp_saw_end: bool,
}

#[derive(Clone, Debug, PartialEq)]
struct Obs {
    state: AnimationState,
    pos: Duration,
    enabled: bool,
    comp: Option<C>,
}

fn observe(world: &World, e: Entity) -> Obs {
    let a = world.get::<Animator<C>>(e).unwrap();
    Obs { state: a.state(), pos: a.timeline_position, enabled: a.enabled, comp: world.get::<C>(e).cloned() }
}

fn schedule_json(sched: &[f64], ent: &Ent, tms: &[Cf]) -> Value {
    json!({"timing": tms[ent.cfg].json(), "frame_deltas_s": sched, "spawned_before_frame": ent.born, "virtual_clock": CLOCK_MODES[TMODE.with(|t| t.get()) as usize], "control_before_each_of_its_frames": ent.ctl.iter().map(|c| format!("{c:?}")).collect::<Vec<_>>(),
           "initial_component": {"x": 3.0, "n": 33, "y": 7.0}, "T1_keyframes": "0%: x=10,n=-5; 100%: x=20,n=5", "T2": {"timing": T2.json(), "keyframes": "0%: x=100,n=50; 100%: x=200,n=60"}})
}

/// Runs one App for a delta schedule hosting `ents`; checks R1-R9 per entity-frame.
fn run_schedule(sched: &[f64], ctl_histories: &[Vec<Ctl>], tms: &[Cf], rank0: u64, acc: &mut Acc) {
    run_schedule_late(sched, ctl_histories, tms, 0, 0, rank0, acc)
}

/// `late` > 0: a second copy of every entity is spawned just before frame `late` (entities that join a running
/// App must be treated like the ones present from the start).
/// `tmode`: what happens to the virtual clock: 0 nothing, 1 relative speed 2, 2 relative speed 1/2, 3 paused during
/// the odd frames, 4 paused during frames 1 and 2. The "frame's delta" of the rules is `Time::delta()`.
fn run_schedule_late(sched: &[f64], ctl_histories: &[Vec<Ctl>], tms: &[Cf], late: usize, tmode: u8, rank0: u64, acc: &mut Acc) {
    let mut d = Driver::new(|app| {
        app.add_plugins(AnimationPlugin::<C>::new());
    });
    acc.apps += 1;
    let tls1: Vec<Tl> = tms.iter().map(|c| c.build()).collect();
    let tl2 = Tl::Plain(t2());
    let mut ents: Vec<Ent> = vec![];
    // bystanders: enabled animators that have no timeline (yet) - with and without a target component - spawned
    // before, in the middle of and after every batch; they stay idle and must not disturb anybody else
    let idle: std::cell::RefCell<Vec<Entity>> = std::cell::RefCell::new(vec![]);
    let spawn_idle = |d: &mut Driver| {
        idle.borrow_mut().push(d.app.world.spawn((C::initial(), Animator::<C>::new())).id());
        idle.borrow_mut().push(d.app.world.spawn((Animator::<C>::new(),)).id());
    };
    let spawn_batch = |d: &mut Driver, ents: &mut Vec<Ent>, born: usize| {
        spawn_idle(d);
        for (ci, _) in tms.iter().enumerate() {
            if ci == tms.len() / 2 {
                spawn_idle(d);
            }
            for h in ctl_histories {
                // API variety: histories that start with Disable are spawned with `as_disabled()`, those
                // that start with Reset through `Animator::new()` + `set_timeline`
                let animator = match h.first() {
                    Some(Ctl::Disable) => tls1[ci].animator().as_disabled(),
                    Some(Ctl::Reset) => {
                        let mut a = Animator::<C>::new();
                        tls1[ci].set_on(&mut a);
                        a
                    }
                    Some(Ctl::AdoptSeeked) => Animator::<C>::new(),
                    _ => tls1[ci].animator(),
                };
                // histories that start with Detach are spawned without the target component at all
                let e = if h.first() == Some(&Ctl::Detach) { d.app.world.spawn((animator,)).id() } else { d.app.world.spawn((C::initial(), animator)).id() };
                ents.push(Ent { e, cfg: ci, ctl: h.clone(), born, on_t2: false, ended_events_in_run: 0, entered_ended_in_run: false, comp_saw_end: false });
            }
        }
        spawn_idle(d);
    };
    spawn_batch(&mut d, &mut ents, 0);
    let mut index_of: std::collections::HashMap<Entity, usize> = ents.iter().enumerate().map(|(i, e)| (e.e, i)).collect();
    let mut ev_by_ent: Vec<Vec<AnimationState>> = vec![vec![]; ents.len()];
    TMODE.with(|t| t.set(tmode));
    match tmode {
        1 => d.set_speed(2.0),
        2 => d.set_speed(0.5),
        _ => {}
    }
    for (f, &dsec) in sched.iter().enumerate() {
        let raw_delta = Duration::from_secs_f64(dsec);
        match tmode {
            3 => d.set_paused(f % 2 == 1),
            4 => d.set_paused(f == 1 || f == 2),
            _ => {}
        }
        if late > 0 && f == late {
            spawn_batch(&mut d, &mut ents, f);
            index_of = ents.iter().enumerate().map(|(i, e)| (e.e, i)).collect();
            ev_by_ent = vec![vec![]; ents.len()];
        }
        let nent = ents.len();
        // control operations before the frame, then pre-observation
        let mut pre: Vec<Obs> = Vec::with_capacity(nent);
        let mut reset_failures: Vec<(Entity, String)> = vec![];
        for ent in ents.iter_mut() {
            // (a late entity replays its control history from its own first frame)
            let c = ent.ctl.get(f - ent.born).copied().unwrap_or(Ctl::Nothing);
            if c == Ctl::Detach {
                d.app.world.entity_mut(ent.e).remove::<C>();
                ent.comp_saw_end = false;
            } else if c == Ctl::Attach {
                d.app.world.entity_mut(ent.e).insert(C::initial());
                ent.comp_saw_end = false;
            } else if c != Ctl::Nothing {
                let mut a = d.app.world.get_mut::<Animator<C>>(ent.e).unwrap();
                match c {
                    Ctl::Disable => a.enabled = false,
                    Ctl::Enable => a.enabled = true,
                    Ctl::Reset => {
                        a.reset();
                        // the contract of reset(): the run starts over from position zero, whatever came before
                        if a.timeline_position != Duration::ZERO || a.state() != AnimationState::None {
                            let (pos, st) = (a.timeline_position, a.state());
                            reset_failures.push((ent.e, format!("after reset(): position {pos:?}, state {st:?}")));
                        }
                        ent.ended_events_in_run = 0;
                        ent.entered_ended_in_run = false;
                    }
                    Ctl::SetT2 => {
                        tl2.set_on(&mut a);
                        ent.on_t2 = true;
                        ent.ended_events_in_run = 0;
                        ent.entered_ended_in_run = false;
                    }
                    Ctl::SeekHalf | Ctl::SeekLate => {
                        a.reset();
                        a.timeline_position = Duration::from_millis(if c == Ctl::SeekHalf { 500 } else { 1500 });
                        ent.ended_events_in_run = 0;
                        ent.entered_ended_in_run = false;
                    }
                    Ctl::AdoptSeeked => {
                        a.timeline_position = Duration::from_millis(500);
                        tls1[ent.cfg].set_on(&mut a);
                        // the contract of set_timeline(): it never resets, the position set by the user stands
                        if a.timeline_position != Duration::from_millis(500) {
                            let pos = a.timeline_position;
                            reset_failures.push((ent.e, format!("after timeline_position = 500 ms; set_timeline(..) on an animator without a timeline: position {pos:?}")));
                        }
                    }
                    Ctl::Nothing | Ctl::Detach | Ctl::Attach => {}
                }
            }
            pre.push(observe(&d.app.world, ent.e));
        }
        for (e, msg) in reset_failures {
            let ent = &ents[index_of[&e]];
            acc.sink.add(if msg.starts_with("after reset") { "R0:reset-does-not-rewind" } else { "R0:set_timeline-moved-the-clock" }, rank0 | (f as u64) << 24, || (format!("before frame {f}: {msg} | controls {:?} deltas {:?}", ent.ctl, sched), schedule_json(sched, ent, tms)));
        }
        for v in ev_by_ent.iter_mut() {
            v.clear();
        }
        let frame_events = d.frame(raw_delta);
        // the delta the systems saw (scaled / zero while paused)
        let delta = d.last_delta();
        for (e, s) in frame_events {
            acc.events += 1;
            match index_of.get(&e) {
                Some(&i) => ev_by_ent[i].push(s),
                None => acc.sink.add("R0:timeline-less-animator-announced-a-state", rank0 | (f as u64) << 24, || (format!("frame {f}: an animator without a timeline sent the event {s:?}; deltas {sched:?}"), json!({"frame_deltas_s": sched, "bystander": true}))),
            }
        }
        for &b in idle.borrow().iter() {
            acc.rule_checks += 1;
            let a = d.app.world.get::<Animator<C>>(b).unwrap();
            let untouched = d.app.world.get::<C>(b).map(|c| c.bits() == C::initial().bits()).unwrap_or(true);
            if a.state() != AnimationState::None || a.timeline_position != Duration::ZERO || !untouched {
                acc.sink.add("R0:timeline-less-animator-not-idle", rank0 | (f as u64) << 24, || (format!("frame {f}: an enabled animator without a timeline is in state {:?} at {:?}, target untouched: {untouched}; deltas {sched:?}", a.state(), a.timeline_position), json!({"frame_deltas_s": sched, "bystander": true})));
            }
        }
        for (i, ent) in ents.iter_mut().enumerate() {
            acc.entity_frames += 1;
            let o = &pre[i];
            let n = observe(&d.app.world, ent.e);
            let evs = &ev_by_ent[i];
            let tm = if ent.on_t2 { Cf::plain(T2) } else { tms[ent.cfg].clone() };
            let tl: &Tl = if ent.on_t2 { &tl2 } else { &tls1[ent.cfg] };
            let rank = rank0 | (f as u64) << 24 | i as u64;
            let p = o.pos.as_secs_f32();
            if acc.outcomes.len() < 20_000 {
                acc.outcomes.insert((rank_of(n.state) as u64) << 60 ^ (n.comp.as_ref().map(|c| c.x.to_bits()).unwrap_or(7) as u64) << 20 ^ n.pos.as_nanos() as u64);
            }
            macro_rules! viol {
                ($sig:expr, $($arg:tt)*) => {{
                    let msg = format!($($arg)*);
                    acc.sink.add($sig, rank, || (format!("frame {f} (delta {dsec}s): {msg} | before {:?} after {:?} events {:?} | timing {:?} controls {:?} (spawned before frame {}) deltas {:?}", o, n, evs, tm, ent.ctl, ent.born, sched), schedule_json(sched, ent, tms)));
                }};
            }
            if !o.enabled {
                acc.rule_checks += 1;
                if n != *o || !evs.is_empty() {
                    viol!("R8:disabled-animator-changed-something", "disabled animator changed state/position/component or sent an event");
                }
                continue;
            }
            acc.rule_checks += 8;
            if n.state != o.state {
                acc.nontrivial += 1;
            }
            // R1 time conservation
            match n.state {
                AnimationState::Waiting | AnimationState::Playing => {
                    if n.pos != o.pos + delta {
                        viol!("R1:position-not-advanced-by-delta", "position {:?} != {:?} + {:?}", n.pos, o.pos, delta);
                    }
                }
                AnimationState::Ended => {
                    if n.pos != o.pos {
                        viol!("R1:position-grows-after-end", "position moved from {:?} to {:?} although Ended", o.pos, n.pos);
                    }
                }
                AnimationState::None => viol!("R2:state-none-with-timeline", "state None after a frame although a timeline is set"),
            }
            // R2 forward only
            if rank_of(n.state) < rank_of(o.state) {
                viol!("R2:state-moved-backwards", "{:?} -> {:?}", o.state, n.state);
            }
            // R3 waiting only before the delay
            if n.state == AnimationState::Waiting && !(p < tm.delay()) {
                viol!("R3:waiting-at-or-after-delay", "Waiting although position {p} >= delay {}", tm.delay());
            }
            // R4 / R5 ended exactly when over
            match tm.total() {
                Some(total) => {
                    if p >= total && n.state != AnimationState::Ended {
                        viol!("R4:not-ended-one-frame-after-total", "position {p} >= total {total} but state {:?}", n.state);
                    }
                    if o.state != AnimationState::Ended && n.state == AnimationState::Ended && !(p >= total) {
                        viol!("R4:ended-before-total", "Ended at position {p} < total {total}");
                    }
                }
                None => {
                    if o.state != AnimationState::Ended && n.state == AnimationState::Ended {
                        viol!("R5:infinite-timeline-ended", "Ended although the timeline repeats infinitely");
                    }
                }
            }
            if o.state != AnimationState::Ended && n.state == AnimationState::Ended {
                ent.entered_ended_in_run = true;
                ent.comp_saw_end = o.comp.is_some();
            }
            // R6 terminal values whenever Ended (entered under the current timeline, with the component on
            // the entity at that moment and not replaced since)
            if let (true, Some(oc), Some(nc)) = (n.state == AnimationState::Ended && ent.entered_ended_in_run && ent.comp_saw_end, &o.comp, &n.comp) {
                let mut want = oc.clone();
                tl.update(&mut want, f32::MAX);
                if nc.bits() != want.bits() {
                    let how = if o.state == AnimationState::Ended { "later-frame" } else if o.state == AnimationState::Playing { "from-playing" } else { "without-ever-playing" };
                    viol!(&format!("R6:ended-without-terminal-values:{how}"), "reports Ended but component {:?} != terminal values {:?}", n.comp, want);
                }
            }
            // R7 while playing the component follows the timeline at the frame-start position
            if let (true, Some(oc), Some(nc)) = (o.state == AnimationState::Playing && n.state == AnimationState::Playing, &o.comp, &n.comp) {
                let mut want = oc.clone();
                tl.update(&mut want, p);
                if nc.bits() != want.bits() {
                    viol!("R7:playing-component-not-timeline-value", "component {:?} != timeline at {p}: {:?}", n.comp, want);
                }
            }
            if let (Some(oc), Some(nc)) = (&o.comp, &n.comp) {
                if nc.y.to_bits() != oc.y.to_bits() {
                    viol!("R7:unanimated-field-touched", "field y changed");
                }
            }
            if o.comp.is_some() != n.comp.is_some() {
                viol!("R7:component-presence-changed", "the frame added or removed the target component");
            }
            // R9 events
            if n.state != o.state {
                if evs.len() != 1 || evs[0] != n.state {
                    viol!("R9:state-change-not-announced-once-with-final-state", "state {:?} -> {:?} but events {:?}", o.state, n.state, evs);
                }
            } else if !evs.is_empty() {
                viol!("R9:event-without-state-change", "state unchanged ({:?}) but events {:?}", n.state, evs);
            }
            for s in evs {
                if *s == AnimationState::Ended {
                    ent.ended_events_in_run += 1;
                    if ent.ended_events_in_run > 1 {
                        viol!("R9:more-than-one-ended-event-per-run", "second Ended event in the same run");
                    }
                }
            }
        }
    }
    if acc.samples.len() < 2 && sched.len() >= 3 && sched[0] == 0.25 && sched[1] == 8.0 {
        let ent = &ents[ents.len() / 2 + 7];
        acc.samples.push(json!({"case": schedule_json(sched, ent, tms), "final": format!("{:?}", observe(&d.app.world, ent.e))}));
    }
}

fn rank_of(s: AnimationState) -> u8 {
    rank(s)
}

pub fn run(run: Run) -> ! {
    let thorough = run.is_thorough();
    let depth = if thorough { 6 } else { 5 };
    let mut tms: Vec<Cf> = timings().into_iter().map(Cf::plain).collect();
    tms.extend(merged_cfs());
    // all control histories of length `depth`
    let mut ctl_h: Vec<Vec<Ctl>> = vec![vec![]];
    for _ in 0..depth {
        let mut next = vec![];
        for h in &ctl_h {
            for c in CTLS {
                let mut x = h.clone();
                x.push(c);
                next.push(x);
            }
        }
        ctl_h = next;
    }
    // all delta schedules of length `depth` (every prefix is checked frame by frame)
    let nsched = 4usize.pow(depth as u32);
    let mut acc = par_fold(
        nsched,
        Acc::default,
        |si, acc| {
            let mut sched = vec![];
            let mut c = si;
            for _ in 0..depth {
                sched.push(DELTAS[c % 4]);
                c /= 4;
            }
            run_schedule(&sched, &ctl_h, &tms, (si as u64) << 40, acc);
        },
        merge,
    );
    // deviation-bounded pass: default delta 1/4, <= k deviations over a longer horizon, <= 1 control op
    let (horizon, k) = if thorough { (14usize, 3usize) } else { (12usize, 2usize) };
    let mut scheds: Vec<Vec<f64>> = vec![];
    fn rec(h: usize, k: usize, cur: &mut Vec<f64>, used: usize, out: &mut Vec<Vec<f64>>) {
        if cur.len() == h {
            out.push(cur.clone());
            return;
        }
        cur.push(0.25);
        rec(h, k, cur, used, out);
        cur.pop();
        if used < k {
            for d in [0.0, 1.0 / 512.0, 8.0] {
                cur.push(d);
                rec(h, k, cur, used + 1, out);
                cur.pop();
            }
        }
    }
    rec(horizon, k, &mut vec![], 0, &mut scheds);
    let mut ctl_dev: Vec<Vec<Ctl>> = vec![vec![Ctl::Nothing; horizon]];
    for pos in 0..horizon {
        for c in [Ctl::Disable, Ctl::Reset, Ctl::SetT2] {
            let mut h = vec![Ctl::Nothing; horizon];
            h[pos] = c;
            if c == Ctl::Disable && pos + 2 < horizon {
                h[pos + 2] = Ctl::Enable;
            }
            ctl_dev.push(h);
        }
        // target component absent for two frames, or from the start until `pos`
        let mut h = vec![Ctl::Nothing; horizon];
        h[pos] = Ctl::Detach;
        if pos + 2 < horizon {
            h[pos + 2] = Ctl::Attach;
        }
        ctl_dev.push(h);
        if pos > 0 {
            let mut h = vec![Ctl::Nothing; horizon];
            h[0] = Ctl::Detach;
            h[pos] = Ctl::Attach;
            ctl_dev.push(h);
        }
    }
    let dev = par_fold(
        scheds.len(),
        Acc::default,
        |si, acc| {
            run_schedule(&scheds[si], &ctl_dev, &tms, (1u64 << 62) | (si as u64) << 40, acc);
        },
        merge,
    );
    let dev_apps = dev.apps;
    merge(&mut acc, dev);
    // non-dyadic pass: totals that are not exactly representable, reached exactly by decimal frame deltas
    // (100 ms and 50 ms are whole numbers of nanoseconds); controls {nothing, reset}
    let nd_tms: Vec<Cf> = nd_timings().into_iter().map(Cf::plain).collect();
    let nd_deltas = [0.0f64, 0.05, 0.1, 8.0];
    let nd_depth = if thorough { 7 } else { 6 };
    let mut nd_ctl: Vec<Vec<Ctl>> = vec![vec![]];
    for _ in 0..nd_depth {
        nd_ctl = nd_ctl.iter().flat_map(|h| [Ctl::Nothing, Ctl::Reset].into_iter().map(move |c| { let mut x = h.clone(); x.push(c); x })).collect();
    }
    let nd = par_fold(
        4usize.pow(nd_depth as u32),
        Acc::default,
        |si, acc| {
            let mut sched = vec![];
            let mut c = si;
            for _ in 0..nd_depth {
                sched.push(nd_deltas[c % 4]);
                c /= 4;
            }
            run_schedule(&sched, &nd_ctl, &nd_tms, (3u64 << 60) | (si as u64) << 40, acc);
        },
        merge,
    );
    let nd_apps = nd.apps;
    merge(&mut acc, nd);
    // late pass: a second copy of every entity joins the running App before frame 1, 2 or 3 (histories with <= 1
    // control); the rules apply to it from its first frame on
    let mut late_ctl: Vec<Vec<Ctl>> = vec![vec![]];
    for pos in 0..3usize {
        for c in [Ctl::Disable, Ctl::Reset, Ctl::SetT2, Ctl::Detach] {
            let mut h = vec![Ctl::Nothing; pos + 1];
            h[pos] = c;
            if c == Ctl::Disable || c == Ctl::Detach {
                h.push(Ctl::Nothing);
                h.push(if c == Ctl::Disable { Ctl::Enable } else { Ctl::Attach });
            }
            late_ctl.push(h);
        }
    }
    let latep = par_fold(
        nsched * 3,
        Acc::default,
        |ii, acc| {
            let (si, late) = (ii / 3, ii % 3 + 1);
            let mut sched = vec![];
            let mut c = si;
            for _ in 0..depth {
                sched.push(DELTAS[c % 4]);
                c /= 4;
            }
            run_schedule_late(&sched, &late_ctl, &tms, late, 0, (4u64 << 60) | (ii as u64) << 40, acc);
        },
        merge,
    );
    let late_apps = latep.apps;
    merge(&mut acc, latep);
    // clock pass: the virtual clock runs at another speed or is paused for some frames (Time::set_relative_speed,
    // Time::pause); the frame's delta is what Time::delta() reports
    let clockp = par_fold(
        nsched * 4,
        Acc::default,
        |ii, acc| {
            let (si, tmode) = (ii / 4, (ii % 4 + 1) as u8);
            let mut sched = vec![];
            let mut c = si;
            for _ in 0..depth {
                sched.push(DELTAS[c % 4]);
                c /= 4;
            }
            run_schedule_late(&sched, &late_ctl, &tms, 0, tmode, (5u64 << 60) | (ii as u64) << 40, acc);
        },
        merge,
    );
    let clock_apps = clockp.apps;
    merge(&mut acc, clockp);
    // presence pass: the target component is detached / (re)attached between frames (an entity may carry an
    // Animator<C> before, or without ever, carrying C): all schedules x all histories over {nothing, detach, attach}
    let mut pr_ctl: Vec<Vec<Ctl>> = vec![vec![]];
    for _ in 0..depth {
        pr_ctl = pr_ctl.iter().flat_map(|h| [Ctl::Nothing, Ctl::Detach, Ctl::Attach].into_iter().map(move |c| { let mut x = h.clone(); x.push(c); x })).collect();
    }
    let pr = par_fold(
        nsched,
        Acc::default,
        |si, acc| {
            let mut sched = vec![];
            let mut c = si;
            for _ in 0..depth {
                sched.push(DELTAS[c % 4]);
                c /= 4;
            }
            run_schedule(&sched, &pr_ctl, &tms, (2u64 << 60) | (si as u64) << 40, acc);
        },
        merge,
    );
    let pr_apps = pr.apps;
    merge(&mut acc, pr);
    // seek pass: the documented `reset()` + `timeline_position = ...` recipe, once per history (at any frame, also
    // before the first), alone or followed by a reset / disable-enable: all schedules
    let mut sk_ctl: Vec<Vec<Ctl>> = vec![];
    for pos in 0..depth {
        for sk in [Ctl::SeekHalf, Ctl::SeekLate] {
            let mut h = vec![Ctl::Nothing; depth];
            h[pos] = sk;
            sk_ctl.push(h.clone());
            if pos + 2 < depth {
                let mut h2 = h.clone();
                h2[pos + 2] = Ctl::Reset;
                sk_ctl.push(h2);
                let mut h3 = h.clone();
                h3[pos + 1] = Ctl::Disable;
                h3[pos + 2] = Ctl::Enable;
                sk_ctl.push(h3);
            }
            // a seek made while the animator is disabled (it has not run since), then reset() and enable
            if pos >= 1 && pos + 2 < depth {
                let mut h4 = vec![Ctl::Nothing; depth];
                h4[pos - 1] = Ctl::Disable;
                h4[pos] = sk;
                h4[pos + 1] = Ctl::Reset;
                h4[pos + 2] = Ctl::Enable;
                sk_ctl.push(h4);
            }
        }
    }
    // an animator that is given its first timeline after the user has already set its position
    {
        let mut h = vec![Ctl::Nothing; depth];
        h[0] = Ctl::AdoptSeeked;
        sk_ctl.push(h.clone());
        let mut h2 = h.clone();
        h2[2] = Ctl::Reset;
        sk_ctl.push(h2);
        let mut h3 = h.clone();
        h3[1] = Ctl::SetT2;
        sk_ctl.push(h3);
    }
    let skp = par_fold(
        nsched,
        Acc::default,
        |si, acc| {
            let mut sched = vec![];
            let mut c = si;
            for _ in 0..depth {
                sched.push(DELTAS[c % 4]);
                c /= 4;
            }
            run_schedule(&sched, &sk_ctl, &tms, (3u64 << 60) | (si as u64) << 40, acc);
        },
        merge,
    );
    let sk_apps = skp.apps;
    merge(&mut acc, skp);
    let mut cov = Map::new();
    cov.insert("states".into(), json!(acc.entity_frames));
    cov.insert("transitions".into(), json!(acc.entity_frames));
    cov.insert("traces_validated_against_impl".into(), json!(acc.apps));
    cov.insert("evaluations".into(), json!(acc.rule_checks));
    cov.insert("distinct_nontrivial".into(), json!(acc.nontrivial));
    cov.insert("rule".into(), json!(format!("real headless bevy App (AnimationPlugin<C>, hand-driven Time resource, single-threaded executor): ALL {} frame-delta schedules of length {} over {{0, 2^-9, 1/4, 8}} s x ALL {} per-entity control histories over {{nothing, disable, enable, reset, set_timeline(T2)}} (one control before each frame) x 16 timeline configurations (12 plain: delay 0|1/2 x None|Times 1|Infinite x forward|reverse, cycle 1 s; 4 MergedTimelines of two components staggered by delay and/or with different repeat counts - delay = smallest, total = largest component total), one App per schedule hosting every (timing, control history) as its own entity; plus a deviation-bounded pass: default delta 1/4, all schedules of {} frames with <= {} deviations ({} schedules) x control histories with <= 1 control; plus a non-dyadic pass ({} schedules over deltas 0, 50 ms, 100 ms, 8 s x 8 timelines whose totals are not exactly representable - 0.3/0.4/0.7/0.3 s, and four with a delay whose sum with the total rounds (0.3+1, 0.1+2, 0.5+0.4, 0.1+2x1 reversing) x reset histories); plus a late pass ({} Apps: a second copy of every entity is spawned into the running App before frame 1, 2 or 3); plus a clock pass ({} Apps: Time::set_relative_speed(2 | 1/2), Time::pause during the odd frames or during frames 1-2 - the frame's delta is Time::delta()); plus a presence pass ({} Apps: all schedules x ALL histories over {{nothing, detach the target component, attach a fresh one}}; histories starting with detach spawn the animator without the component) - the animator's clock, state and events must not depend on the component being there, R6/R7 apply while it is; plus a seek pass ({} Apps: the documented reset() + timeline_position = 1/2 s | 3/2 s recipe at any one frame, alone, followed by a reset or a disable/enable, or made while disabled and followed by reset() and enable; reset() itself must leave position 0 and state None; an animator spawned without a timeline whose position is set before its first set_timeline continues from that position). Rules per entity-frame: R1 position += delta while Waiting/Playing and frozen when Ended; R2 state never moves backwards; R3 Waiting only while position < delay; R4 Ended iff position >= total (checked at the frame-start position); R5 never Ended when infinite; R6 Ended => component == terminal values; R7 Playing => component == timeline at the frame-start position; R8 disabled => nothing changes, no event; R9 exactly one event per state change carrying the final state, one Ended per run. non-trivial = entity-frames in which the state changed", nsched, depth, ctl_h.len(), horizon, k, dev_apps, nd_apps, late_apps, clock_apps, pr_apps, sk_apps)));
    cov.insert("exhaustive".into(), json!(true));
    cov.insert("apps".into(), json!(acc.apps));
    cov.insert("events_observed".into(), json!(acc.events));
    cov.insert("deviation_bound_completed".into(), json!(k));
    cov.insert("distinct_observed_outcomes_capped".into(), json!(acc.outcomes.len()));
    cov.insert("samples".into(), json!(acc.samples));
    run.finish(acc.sink, cov, vec!["timeline evaluation itself is decided by C01-C03; here the real timeline is the evaluator".into(), "the state reported after a frame describes the frame-start position (weakest reading, DESIGN C18)".into()])
}

pub fn replay(case: &Value) -> bool {
    let mut tms: Vec<Cf> = timings().into_iter().chain(nd_timings()).map(Cf::plain).collect();
    tms.extend(merged_cfs());
    let tmj = &case["timing"];
    let ci = tms.iter().position(|t| t.json() == *tmj).unwrap_or(0);
    let sched: Vec<f64> = case["frame_deltas_s"].as_array().map(|a| a.iter().map(|x| x.as_f64().unwrap()).collect()).unwrap_or_default();
    let ctl: Vec<Ctl> = case.get("control_before_each_of_its_frames").unwrap_or(&case["control_before_each_frame"]).as_array().map(|a| a.iter().map(|x| *ALL_CTLS.iter().find(|c| format!("{c:?}") == x.as_str().unwrap()).unwrap()).collect()).unwrap_or_default();
    let mut acc = Acc::default();
    let late = case["spawned_before_frame"].as_u64().unwrap_or(0) as usize;
    let tmode = CLOCK_MODES.iter().position(|m| Some(*m) == case["virtual_clock"].as_str()).unwrap_or(0) as u8;
    run_schedule_late(&sched, &[ctl], &tms[ci..ci + 1], late, tmode, 0, &mut acc);
    for (s, v) in &acc.sink.map {
        println!("{s}: {}", v.desc);
    }
    acc.sink.map.is_empty()
}
