//! Shared E4 plumbing: headless App with hand-driven Time, the animated component, timelines.

use bevy::prelude::*;
use bevy_mina::prelude::*;
use mina::prelude::*;
use std::time::{Duration, Instant};

#[derive(Animate, Component, Clone, Debug, Default, PartialEq)]
pub struct C {
    #[animate]
    pub x: f32,
    #[animate]
    pub n: i32,
    pub y: f32,
}

impl C {
    pub fn bits(&self) -> (u32, i32, u32) {
        (self.x.to_bits(), self.n, self.y.to_bits())
    }
    pub fn initial() -> C {
        C { x: 3.0, n: 33, y: 7.0 }
    }
}

/// Second animated component type (for entities with two animators).
#[derive(Animate, Component, Clone, Debug, Default, PartialEq)]
pub struct Q {
    pub w: f32,
}

#[derive(Clone, Copy, Debug, PartialEq)]
pub enum Rp {
    None,
    Times(u32),
    Infinite,
}

#[derive(Clone, Copy, Debug, PartialEq)]
pub struct Tm {
    pub cycle: f32,
    pub delay: f32,
    pub rep: Rp,
    pub reverse: bool,
}

impl Tm {
    pub fn total(&self) -> Option<f32> {
        match self.rep {
            Rp::None => Some(self.delay + self.cycle),
            Rp::Times(n) => Some(self.delay + self.cycle * (n as f32 + 1.0)),
            Rp::Infinite => None,
        }
    }
    pub fn json(&self) -> serde_json::Value {
        serde_json::json!({"cycle": self.cycle, "delay": self.delay, "repeat": format!("{:?}", self.rep), "reverse": self.reverse})
    }
}

pub fn timeline_for(t: &Tm, x0: f32, x1: f32, n0: i32, n1: i32) -> CTimeline {
    C::timeline()
        .duration_seconds(t.cycle)
        .delay_seconds(t.delay)
        .repeat(match t.rep {
            Rp::None => Repeat::None,
            Rp::Times(n) => Repeat::Times(n),
            Rp::Infinite => Repeat::Infinite,
        })
        .reverse(t.reverse)
        .keyframe(C::keyframe(0.0).x(x0).n(n0))
        .keyframe(C::keyframe(1.0).x(x1).n(n1))
        .build()
}

pub fn rank(s: AnimationState) -> u8 {
    match s {
        AnimationState::None => 0,
        AnimationState::Waiting => 1,
        AnimationState::Playing => 2,
        AnimationState::Ended => 3,
    }
}

pub struct Driver {
    pub app: App,
    base: Instant,
    elapsed: Duration,
    reader: bevy::ecs::event::ManualEventReader<AnimationStateChanged>,
}

impl Driver {
    pub fn new(configure: impl FnOnce(&mut App)) -> Driver {
        let mut app = App::new();
        let base = Instant::now();
        let mut time = Time::new(base);
        time.update_with_instant(base);
        app.insert_resource(time);
        configure(&mut app);
        Driver { app, base, elapsed: Duration::ZERO, reader: Default::default() }
    }

    /// The virtual clock is paused / resumed (`Time::pause`): while paused, `Time::delta()` is zero although real
    /// time passes.
    pub fn set_paused(&mut self, paused: bool) {
        let mut t = self.app.world.resource_mut::<Time>();
        if paused { t.pause() } else { t.unpause() }
    }

    /// `Time::set_relative_speed`: `Time::delta()` is the real frame time scaled by this factor.
    pub fn set_speed(&mut self, speed: f32) {
        self.app.world.resource_mut::<Time>().set_relative_speed(speed);
    }

    /// The delta the systems of the last frame saw (`Time::delta()`).
    pub fn last_delta(&self) -> Duration {
        self.app.world.resource::<Time>().delta()
    }

    /// Runs one frame whose real (raw) delta is exactly `delta`; returns the events sent during the frame.
    pub fn frame(&mut self, delta: Duration) -> Vec<(Entity, AnimationState)> {
        self.elapsed += delta;
        let now = self.base + self.elapsed;
        self.app.world.resource_mut::<Time>().update_with_instant(now);
        self.app.update();
        let events = self.app.world.resource::<Events<AnimationStateChanged>>();
        self.reader.iter(events).map(|e| (e.entity, e.state)).collect()
    }
}
