//! C19 — Bevy selector / chain: key changes blend smoothly, chains advance on end (and only then).

use crate::common::*;
use bevy::prelude::*;
use bevy::utils::HashMap;
use bevy_mina::prelude::*;
use mina::prelude::*;
use serde_json::{json, Map, Value};
use std::time::Duration;
use vlib::util::*;

#[derive(Clone, Copy, Debug, Default, PartialEq, Eq, Hash)]
pub enum K {
    #[default]
    A,
    B,
    C,
    N,
}
const KEYS: [K; 4] = [K::A, K::B, K::C, K::N];
const DELTAS: [f64; 3] = [0.25, 8.0, 0.0];

fn key_tm(k: K) -> Option<Tm> {
    match k {
        K::A => Some(Tm { cycle: 0.5, delay: 0.0, rep: Rp::None, reverse: false }),
        K::B => Some(Tm { cycle: 0.5, delay: 0.25, rep: Rp::None, reverse: false }),
        K::C => Some(Tm { cycle: 0.5, delay: 0.0, rep: Rp::Infinite, reverse: false }),
        K::N => None,
    }
}

fn key_timeline(k: K) -> Option<CTimeline> {
    match k {
        K::A => Some(timeline_for(&key_tm(k).unwrap(), 10.0, 20.0, 1, 2)),
        K::B => Some(timeline_for(&key_tm(k).unwrap(), 100.0, 200.0, 10, 20)),
        K::C => Some(timeline_for(&key_tm(k).unwrap(), -10.0, -20.0, -1, -2)),
        K::N => None,
    }
}

fn chain_maps() -> Vec<Option<Vec<(K, K)>>> {
    // the last map is built with AnimationChain::reset_after(B) = {B -> K::default() = A}
    // (the self-map A->A sits before the last entry, whose position selects reset_after)
    vec![None, Some(vec![(K::A, K::B)]), Some(vec![(K::A, K::B), (K::B, K::A)]), Some(vec![(K::A, K::N)]), Some(vec![(K::B, K::C)]), Some(vec![(K::A, K::A), (K::B, K::B)]), Some(vec![(K::B, K::A)])]
}

/// Initial key per chain map: the default (A); B through the builder for every other map; N (no timeline) for map 4.
fn initial_key_of(mi: usize) -> K {
    if mi == 4 {
        K::N
    } else if mi % 2 == 1 {
        K::B
    } else {
        K::A
    }
}

fn chain_lookup(m: &Option<Vec<(K, K)>>, k: K) -> Option<K> {
    m.as_ref().and_then(|v| v.iter().find(|e| e.0 == k).map(|e| e.1))
}


/// Determines the relative order of chain_animations and select_animation in this process (they
/// are mutually unordered in the plugin; bevy's hash maps are seeded per process). Returns true
/// if the chain system runs before the select system.
pub fn probe_chain_first() -> bool {
    let mut d = Driver::new(|app| {
        app.add_plugins((AnimationPlugin::<C>::new(), AnimationPlugin::<Q>::new()));
        app.register_animation_key::<C, K>();
    });
    let mut sb = AnimationSelectorBuilder::<K, C>::new();
    for k in [K::A, K::B, K::C] {
        sb = sb.add(k, key_timeline(k).unwrap());
    }
    let e = d.app.world.spawn((C::initial(), Animator::<C>::new(), sb.build(), AnimationChainBuilder::<K>::new().add(K::A, K::B).build())).id();
    // frames of 1/4 s: A (0.5 s) ends in frame 2; the chain moves the key in frame 3
    for _ in 0..3 {
        d.frame(Duration::from_millis(250));
    }
    assert_eq!(d.app.world.get::<Animator<C>>(e).unwrap().state(), AnimationState::Ended);
    d.frame(Duration::from_millis(250));
    let a = d.app.world.get::<Animator<C>>(e).unwrap();
    let key = d.app.world.get::<AnimationSelector<K, C>>(e).unwrap().timeline_key;
    assert_eq!(key, K::B, "probe: chain did not move the key");
    // chain first: select saw the new key in the same frame and restarted the animator
    a.state() != AnimationState::Ended
}

thread_local! { static PAUSE: std::cell::Cell<u32> = std::cell::Cell::new(0); }
thread_local! { static ORDER: std::cell::Cell<bool> = std::cell::Cell::new(true); }
// frame before which the user hot-swaps the governed animator's timeline (Animator::set_timeline) for a 0.25 s one
thread_local! { static SWAP: std::cell::Cell<Option<usize>> = std::cell::Cell::new(None); }
// replay only: print the per-frame observations of the entities with this (chain map, second component)
thread_local! { static TRACE: std::cell::Cell<Option<(usize, bool)>> = std::cell::Cell::new(None); }

fn swap_timeline() -> CTimeline {
    timeline_for(&Tm { cycle: 0.25, delay: 0.0, rep: Rp::None, reverse: false }, 1000.0, 2000.0, 100, 200)
}

#[derive(Default)]
struct Acc {
    sink: VSink,
    apps: u64,
    entity_frames: u64,
    rule_checks: u64,
    switches: u64,
    chain_fires: u64,
    samples: Vec<Value>,
    outcomes: std::collections::HashSet<u64>,
}

fn merge(a: &mut Acc, b: Acc) {
    a.sink.merge(b.sink);
    a.apps += b.apps;
    a.entity_frames += b.entity_frames;
    a.rule_checks += b.rule_checks;
    a.switches += b.switches;
    a.chain_fires += b.chain_fires;
    if a.outcomes.len() < 100_000 {
        a.outcomes.extend(b.outcomes);
    }
    if a.samples.len() < 3 {
        a.samples.extend(b.samples);
    }
}

#[derive(Clone, Debug)]
struct Ent {
    e: Entity,
    chain: usize,
    two: bool,
    /// key assignment before each frame (None = leave alone)
    assign: Vec<Option<K>>,
    /// the governed animator is disabled before frame .0 and enabled again before frame .1
    dis: Option<(usize, usize)>,
    // model
    acted: Option<K>,
    run_tl: Option<CTimeline>,
    ended_prev: Option<K>,
    foreign_ended_prev: bool,
}

#[derive(Clone, Debug, PartialEq)]
struct Obs {
    key: K,
    state: AnimationState,
    pos: Duration,
    comp: C,
    qstate: Option<AnimationState>,
    enabled: bool,
}

fn observe(world: &World, e: Entity) -> Obs {
    let a = world.get::<Animator<C>>(e).unwrap();
    Obs { key: world.get::<AnimationSelector<K, C>>(e).unwrap().timeline_key, state: a.state(), pos: a.timeline_position, comp: world.get::<C>(e).unwrap().clone(), qstate: world.get::<Animator<Q>>(e).map(|q| q.state()), enabled: a.enabled }
}

fn case_json(sched: &[f64], ent: &Ent) -> Value {
    json!({"frame_deltas_s": sched, "key_assignment_before_each_frame": ent.assign.iter().map(|k| k.map(|k| format!("{k:?}"))).collect::<Vec<_>>(), "chain_map_index": ent.chain, "animator_disabled_before_frame_and_enabled_before_frame": ent.dis, "virtual_clock_paused_during_frames_bitmask": PAUSE.with(|p| p.get()), "chain_animations_before_select_animation": ORDER.with(|p| p.get()), "user_hot_swaps_timeline_before_frame": SWAP.with(|p| p.get()),
           "chain_map": chain_maps()[ent.chain].as_ref().map(|v| v.iter().map(|(a, b)| format!("{a:?}->{b:?}")).collect::<Vec<_>>()), "second_animated_component": ent.two,
           "keys": {"A": "0.5 s, x 10->20", "B": "0.5 s after 0.25 s, x 100->200", "C": "0.5 s infinite, x -10->-20", "N": "no timeline"}, "initial_key": match initial_key_of(ent.chain) { K::B => "B (AnimationSelectorBuilder::initial_key)", K::N => "N, which has no timeline (AnimationSelectorBuilder::initial_key), while the animator is spawned with a timeline of its own (Animator::with_timeline)", _ => "A (default)" }, "initial_component": {"x": 3.0, "n": 33, "y": 7.0}})
}

fn run_schedule(sched: &[f64], assigns: &[Vec<Option<K>>], windows: &[Option<(usize, usize)>], chain_first: bool, rank0: u64, acc: &mut Acc) {
    run_schedule_paused(sched, assigns, windows, 0, chain_first, rank0, acc)
}

/// `pause_mask`: bit f set = the virtual clock (`Time::pause`) is paused during frame f; the frame's delta is then
/// zero (`Time::delta()`), but the selector and the chain still work (events must not be lost).
fn run_schedule_paused(sched: &[f64], assigns: &[Vec<Option<K>>], windows: &[Option<(usize, usize)>], pause_mask: u32, chain_first: bool, rank0: u64, acc: &mut Acc) {
    PAUSE.with(|p| p.set(pause_mask));
    ORDER.with(|p| p.set(chain_first));
    let swap_frame = SWAP.with(|p| p.get());
    let mut d = Driver::new(|app| {
        app.add_plugins((AnimationPlugin::<C>::new(), AnimationPlugin::<Q>::new()));
        app.register_animation_key::<C, K>();
    });
    acc.apps += 1;
    let maps = chain_maps();
    let qtl = Q::timeline().duration_seconds(0.5).keyframe(Q::keyframe(0.0).w(0.0)).keyframe(Q::keyframe(1.0).w(1.0)).build();
    let mut ents: Vec<Ent> = vec![];
    for (mi, m) in maps.iter().enumerate() {
        for two in [false, true] {
            for h in assigns {
              for dis in windows {
                let mut sb = AnimationSelectorBuilder::<K, C>::new();
                for k in [K::A, K::B, K::C] {
                    sb = sb.add(k, key_timeline(k).unwrap());
                }
                // initial key: the default (A) or, for every other chain map, B through the builder
                let ik = initial_key_of(mi);
                if ik != K::A {
                    sb = sb.initial_key(ik);
                }
                // under the initial key N the animator arrives with a timeline that is not the selector's: the
                // selector still governs it (a key without a timeline stops animation)
                let animator = if ik == K::N { Animator::<C>::with_timeline(swap_timeline()) } else { Animator::<C>::new() };
                let mut ec = d.app.world.spawn((C::initial(), animator, sb.build()));
                if let Some(entries) = m {
                    if mi == maps.len() - 1 {
                        ec.insert(AnimationChain::<K>::reset_after(K::B));
                    } else {
                        let mut cb = AnimationChainBuilder::<K>::new();
                        for (a, b) in entries {
                            cb = cb.add(*a, *b);
                        }
                        ec.insert(cb.build());
                    }
                }
                if two {
                    ec.insert((Q::default(), Animator::<Q>::with_timeline(qtl.clone())));
                }
                let e = ec.id();
                ents.push(Ent { e, chain: mi, two, assign: h.clone(), dis: *dis, acted: None, run_tl: None, ended_prev: None, foreign_ended_prev: false });
              }
            }
        }
    }
    for (f, &dsec) in sched.iter().enumerate() {
        let raw_delta = Duration::from_secs_f64(dsec);
        if pause_mask != 0 {
            d.set_paused(pause_mask & (1 << f) != 0);
        }
        let mut pre: Vec<Obs> = Vec::with_capacity(ents.len());
        for ent in ents.iter_mut() {
            if let Some(Some(k)) = ent.assign.get(f) {
                d.app.world.get_mut::<AnimationSelector<K, C>>(ent.e).unwrap().timeline_key = *k;
            }
            if let Some((f1, f2)) = ent.dis {
                if f == f1 {
                    d.app.world.get_mut::<Animator<C>>(ent.e).unwrap().enabled = false;
                }
                if f == f2 {
                    d.app.world.get_mut::<Animator<C>>(ent.e).unwrap().enabled = true;
                }
            }
            // hot swap (documented: does not reset the animation state; the position carries over)
            if swap_frame == Some(f) && ent.run_tl.is_some() {
                d.app.world.get_mut::<Animator<C>>(ent.e).unwrap().set_timeline(swap_timeline());
                ent.run_tl = Some(swap_timeline());
            }
            pre.push(observe(&d.app.world, ent.e));
        }
        let _events = d.frame(raw_delta);
        let delta = d.last_delta();
        for (i, ent) in ents.iter_mut().enumerate() {
            acc.entity_frames += 1;
            let o = &pre[i];
            let n = observe(&d.app.world, ent.e);
            let assigned = ent.assign.get(f).copied().flatten();
            if TRACE.with(|t| t.get()) == Some((ent.chain, ent.two)) {
                println!("frame {f} delta {dsec}: assigned {assigned:?} | before {o:?} | after {n:?} | events {:?}", _events.iter().filter(|e| e.0 == ent.e).map(|e| e.1).collect::<Vec<_>>());
            }
            let map = &maps[ent.chain];
            let rk = rank0 | (f as u64) << 24 | i as u64;
            if acc.outcomes.len() < 20_000 {
                acc.outcomes.insert((rank(n.state) as u64) << 60 ^ (n.key as u64) << 56 ^ (n.comp.x.to_bits() as u64) << 20 ^ n.pos.as_nanos() as u64);
            }
            macro_rules! viol {
                ($sig:expr, $($arg:tt)*) => {{
                    let msg = format!($($arg)*);
                    acc.sink.add($sig, rk, || (format!("frame {f} (delta {dsec}s): {msg} | before {:?} after {:?} | acted-on key {:?}, ended in previous frame: {:?}, foreign ended: {} | chain {:?} assignments {:?} deltas {:?}", o, n, ent.acted, ent.ended_prev, ent.foreign_ended_prev, map, ent.assign, sched), case_json(sched, ent)));
                }};
            }
            // ---- the selector starts on the key it was built with
            if f == 0 && assigned.is_none() {
                let want = initial_key_of(ent.chain);
                if o.key != want {
                    viol!("S0:initial-key-not-the-configured-one", "selector starts on {:?}, configured initial key {:?}", o.key, want);
                }
            }
            // ---- S5 / S6: who may change the key
            acc.rule_checks += 1;
            let expected_move = match ent.ended_prev {
                Some(k_ended) if o.key == k_ended => chain_lookup(map, k_ended),
                _ => None,
            };
            if n.key != o.key {
                acc.chain_fires += 1;
                if Some(n.key) != expected_move {
                    // the other animator ended in this frame (its `animate` may run before the chain system) or in
                    // the previous one, while the governed animator has been resting in Ended on a key that still has
                    // a chain entry (the chain already fired for that end and the user assigned the old key again
                    // before the select system saw the new one): finding F10
                    let foreign_ended_now = matches!((o.qstate, n.qstate), (Some(a), Some(AnimationState::Ended)) if a != AnimationState::Ended);
                    let sig = if ent.ended_prev.is_none() && (ent.foreign_ended_prev || foreign_ended_now) && o.state == AnimationState::Ended && ent.acted == Some(o.key) && chain_lookup(map, o.key) == Some(n.key) {
                        "S6:chain-fired-by-foreign-animator:governed-animator-resting-in-ended"
                    } else if ent.ended_prev.is_none() && ent.foreign_ended_prev {
                        "S6:chain-fired-by-foreign-animator"
                    } else if ent.ended_prev.is_some() && Some(o.key) != ent.ended_prev {
                        "S6:chain-applied-to-key-that-did-not-end"
                    } else {
                        "S6:key-changed-without-cause"
                    };
                    viol!(sig, "selector key moved {:?} -> {:?} but the only justified move is {:?}", o.key, n.key, expected_move);
                }
            } else if let Some(k2) = expected_move {
                // a no-op re-assignment of the key that just ended must not cancel the chain step
                if k2 != o.key && (assigned.is_none() || assigned == ent.ended_prev) {
                    viol!("S5:chain-did-not-advance", "the governed animator ended on key {:?} in the previous frame, the chain maps it to {:?}, but the key is still {:?}", ent.ended_prev, k2, n.key);
                }
            }
            // ---- selection: acted on in this frame iff the key seen differs from the key acted on
            // the select system sees the key after the chain step of this frame if the chain system
            // runs first in this process, otherwise the key as it was at the start of the frame
            let seen = if chain_first { n.key } else { o.key };
            if ent.acted != Some(seen) {
                acc.switches += 1;
                acc.rule_checks += 3;
                // S1: no jump in the frame the change is acted on
                if n.comp.bits() != o.comp.bits() {
                    viol!("S1:component-jumped-when-key-changed", "component changed from {:?} to {:?} in the frame the key change to {:?} was acted on", o.comp, n.comp, seen);
                }
                match key_tm(seen) {
                    Some(tm) => {
                        // a disabled animator is re-targeted and rewound by the selector but does not start
                        let (want_state, want_pos) = if !o.enabled { (AnimationState::None, Duration::ZERO) } else if 0.0 >= tm.delay { (AnimationState::Playing, delta) } else { (AnimationState::Waiting, delta) };
                        if n.state != want_state || n.pos != want_pos {
                            viol!("S2:animation-not-restarted-on-key-change", "after acting on key {:?}: state {:?} position {:?}, expected {:?} at {:?} (animator enabled: {})", seen, n.state, n.pos, want_state, want_pos, o.enabled);
                        }
                        let mut tl = key_timeline(seen).unwrap();
                        tl.start_with(&o.comp);
                        ent.run_tl = Some(tl);
                    }
                    None => {
                        if n.state != AnimationState::None || n.pos != Duration::ZERO {
                            viol!("S3:key-without-timeline-still-animating", "key {:?} has no timeline but state {:?} position {:?}", seen, n.state, n.pos);
                        }
                        ent.run_tl = None;
                    }
                }
                ent.acted = Some(seen);
            } else {
                acc.rule_checks += 2;
                // S4: not restarted (re-assigning the current key, or nothing happened)
                match (&ent.run_tl, key_tm(seen)) {
                    (Some(_), Some(_)) if !o.enabled => {
                        if n.state != o.state || n.pos != o.pos || n.comp.bits() != o.comp.bits() {
                            viol!("S4:disabled-animator-moved", "animator disabled, yet state {:?}->{:?} position {:?}->{:?} component {:?}->{:?}", o.state, n.state, o.pos, n.pos, o.comp, n.comp);
                        }
                    }
                    (Some(tl), Some(_)) => {
                        let restarted = rank(n.state) < rank(o.state) || (n.state != AnimationState::Ended && n.pos != o.pos + delta) || (n.state == AnimationState::Ended && n.pos != o.pos);
                        if restarted {
                            let why = if assigned == Some(seen) { "S4:reassigning-current-key-restarted-animation" } else { "S4:animation-restarted-without-key-change" };
                            viol!(why, "state {:?}->{:?} position {:?}->{:?}", o.state, n.state, o.pos, n.pos);
                        }
                        // S2: follows the new timeline, blended from the values at the switch
                        if o.state == AnimationState::Playing && (n.state == AnimationState::Playing || n.state == AnimationState::Ended) {
                            let mut want = o.comp.clone();
                            tl.update(&mut want, o.pos.as_secs_f32());
                            if n.comp.bits() != want.bits() {
                                viol!("S2:component-does-not-follow-selected-timeline", "component {:?}, selected timeline blended from the switch values gives {:?} at {:?}", n.comp, want, o.pos);
                            }
                        } else if o.state != AnimationState::Ended && n.state == AnimationState::Ended {
                            // the selected animation ended in this frame without having been seen Playing (delay and
                            // run inside one long frame): the component is on that timeline's terminal values
                            let mut want = o.comp.clone();
                            tl.update(&mut want, f32::MAX);
                            if n.comp.bits() != want.bits() {
                                viol!("S2:selected-animation-ended-without-its-terminal-values", "component {:?}, the selected timeline ends on {:?}", n.comp, want);
                            }
                        } else if n.comp.bits() != o.comp.bits() && !(o.state != AnimationState::Ended && n.state == AnimationState::Ended) {
                            viol!("S2:component-changed-while-not-playing", "component changed {:?} -> {:?} in state {:?}->{:?}", o.comp, n.comp, o.state, n.state);
                        }
                    }
                    _ => {
                        // S3: no timeline: frozen
                        if n.comp.bits() != o.comp.bits() || n.state != AnimationState::None {
                            viol!("S3:key-without-timeline-not-frozen", "component {:?} -> {:?}, state {:?}", o.comp, n.comp, n.state);
                        }
                    }
                }
            }
            // bookkeeping for the next frame
            ent.ended_prev = if o.state != AnimationState::Ended && n.state == AnimationState::Ended { ent.acted } else { None };
            ent.foreign_ended_prev = matches!((o.qstate, n.qstate), (Some(a), Some(AnimationState::Ended)) if a != AnimationState::Ended);
        }
    }
    if acc.samples.len() < 2 && sched.len() >= 4 && sched[0] == 0.25 && sched[1] == 8.0 {
        let ent = &ents[ents.len() / 3 + 11];
        acc.samples.push(json!({"case": case_json(sched, ent), "final": format!("{:?}", observe(&d.app.world, ent.e))}));
    }
}


// ------------------------------------------------------------------------------------------------
// Mirror pass: the "other" animator on the entity reports a state change in EVERY frame (it is reset
// before each frame), so in the frame in which the governed animator ends there are always two events
// for the entity, in whichever order the two `animate` systems run in this process. Run once with C
// governed / Q foreign and once with Q governed / C foreign, so both event orders occur. Oracle: S5
// (the chain advances one frame after the governed animator ended) and S6 (the key moves only then).

macro_rules! mirror_pass {
    ($fname:ident, $G:ident, $F:ident, $gset:ident, $fset:ident, $label:expr) => {
        fn $fname(sched: &[f64], rank0: u64, acc: &mut Acc) {
            let mut d = Driver::new(|app| {
                app.add_plugins((AnimationPlugin::<C>::new(), AnimationPlugin::<Q>::new()));
                app.register_animation_key::<C, K>();
                app.register_animation_key::<Q, K>();
            });
            acc.apps += 1;
            let gtl = |dur: f32, delay: f32, v: f32| $G::timeline().duration_seconds(dur).delay_seconds(delay).keyframe($G::keyframe(1.0).$gset(v)).build();
            let ftl = $F::timeline().duration_seconds(20.0).delay_seconds(0.25).keyframe($F::keyframe(1.0).$fset(1.0)).build();
            // (chain map, foreign animator reset before every frame?)
            let variants: [(&[(K, K)], bool); 4] = [(&[(K::A, K::B)], true), (&[(K::A, K::B), (K::B, K::A)], true), (&[(K::A, K::B)], false), (&[(K::A, K::C)], true)];
            let mut ents: Vec<(Entity, usize, Option<K>, Option<K>)> = vec![]; // entity, variant, acted key, ended-in-previous-frame key
            for (vi, (map, _)) in variants.iter().enumerate() {
                let sel = AnimationSelectorBuilder::<K, $G>::new().add(K::A, gtl(0.5, 0.0, 10.0)).add(K::B, gtl(0.5, 0.25, 20.0)).add(K::C, gtl(0.25, 0.0, 30.0)).build();
                let mut cb = AnimationChainBuilder::<K>::new();
                for (a, b) in map.iter() {
                    cb = cb.add(*a, *b);
                }
                let e = d.app.world.spawn(($G::default(), Animator::<$G>::new(), sel, cb.build(), $F::default(), Animator::<$F>::with_timeline(ftl.clone()))).id();
                ents.push((e, vi, None, None));
            }
            for (f, &dsec) in sched.iter().enumerate() {
                let delta = Duration::from_secs_f64(dsec);
                let mut pre = vec![];
                for (e, vi, _, _) in ents.iter() {
                    if variants[*vi].1 && f > 0 {
                        d.app.world.get_mut::<Animator<$F>>(*e).unwrap().reset();
                    }
                    let a = d.app.world.get::<Animator<$G>>(*e).unwrap();
                    pre.push((d.app.world.get::<AnimationSelector<K, $G>>(*e).unwrap().timeline_key, a.state()));
                }
                let _ = d.frame(delta);
                for (i, ent) in ents.iter_mut().enumerate() {
                    acc.entity_frames += 1;
                    acc.rule_checks += 1;
                    let (okey, ostate) = pre[i];
                    let nkey = d.app.world.get::<AnimationSelector<K, $G>>(ent.0).unwrap().timeline_key;
                    let nstate = d.app.world.get::<Animator<$G>>(ent.0).unwrap().state();
                    let map = variants[ent.1].0;
                    let expected = match ent.3 {
                        Some(k) if okey == k => map.iter().find(|m| m.0 == k).map(|m| m.1),
                        _ => None,
                    };
                    let rk = rank0 | (f as u64) << 8 | i as u64;
                    let case = || json!({"pass": "mirror", "governed_component": $label, "frame_deltas_s": sched, "chain_map": map.iter().map(|(a, b)| format!("{a:?}->{b:?}")).collect::<Vec<_>>(), "other_animator_reset_before_every_frame": variants[ent.1].1,
                        "keys": {"A": "0.5 s", "B": "0.5 s after 0.25 s", "C": "0.25 s"}, "other_animator": "20 s after 0.25 s"});
                    // the selector of EITHER component type acts on its key: key A has a timeline, so after the first
                    // frame the governed animator has been started (both component types are registered with the
                    // same key type in this App)
                    if f == 0 && nstate == AnimationState::None {
                        acc.sink.add("S2:selector-did-not-start-the-animator", rk, || (format!("mirror pass ({} governed, both component types registered with one key type), frame 0: the selector's key {okey:?} has a timeline but the governed animator is still in state None", $label), case()));
                    }
                    if nkey != okey {
                        acc.chain_fires += 1;
                        if Some(nkey) != expected {
                            acc.sink.add("S6:key-changed-without-cause", rk, || (format!("mirror pass ({} governed), frame {f}: key moved {okey:?} -> {nkey:?}, justified move: {expected:?}; deltas {sched:?}", $label), case()));
                        }
                    } else if let Some(k2) = expected {
                        if k2 != okey {
                            acc.sink.add("S5:chain-did-not-advance:other-animator-changed-state-in-the-same-frame", rk, || (format!("mirror pass ({} governed), frame {f}: the governed animator ended on {:?} in the previous frame, the chain maps it to {k2:?}, but the key is still {nkey:?} (the other animator on the entity reported a state change in that frame too); deltas {sched:?}", $label, ent.3), case()));
                        }
                    }
                    // which key is the animator acting on: the select system follows the key
                    let chain_seen = nkey;
                    if ent.2 != Some(chain_seen) && nstate != AnimationState::Ended {
                        ent.2 = Some(chain_seen);
                    }
                    if ent.2.is_none() {
                        ent.2 = Some(okey);
                    }
                    ent.3 = if ostate != AnimationState::Ended && nstate == AnimationState::Ended { Some(okey) } else { None };
                }
            }
        }
    };
}
mirror_pass!(mirror_c_governed, C, Q, x, w, "C");
mirror_pass!(mirror_q_governed, Q, C, w, x, "Q");

/// The relative order of `chain_animations` and `select_animation` is fixed when bevy builds the schedule and
/// differs from process to process (hash seeds). The check therefore supervises worker processes: it re-executes
/// itself until it has one complete exploration under EACH order, forwards their verdict lines and merges their
/// evidence. A worker whose order is not the wanted one exits at once (code 3).
pub fn run(run: Run) -> ! {
    if let Ok(want) = std::env::var("VERIF_C19_ORDER") {
        let chain_first = probe_chain_first();
        if want != "any" && (want == "chain-first") != chain_first {
            std::process::exit(3);
        }
        explore(run, chain_first)
    }
    let exe = std::env::current_exe().unwrap_or_else(|e| machinery_fail(&format!("current_exe: {e}")));
    let work = verif_root().join("work");
    let _ = std::fs::create_dir_all(&work);
    let t0 = std::time::Instant::now();
    let mut parts: Vec<(String, Value)> = vec![];
    let mut lines: Vec<String> = vec![];
    let mut worst = 0;
    let mut attempts = 0u32;
    let mut unobserved: Vec<String> = vec![];
    for want in ["chain-first", "select-first"] {
        let evp = work.join(format!("C19.{want}.evidence.json"));
        let _ = std::fs::remove_file(&evp);
        let mut got = false;
        // the probe tells the orders apart by behaviour; if the code under test no longer shows the difference, the
        // wanted order never turns up (64 misses in a row cannot be chance): explore whatever order comes
        for attempt in 0..65 {
            attempts += 1;
            let want_env = if attempt == 64 { "any" } else { want };
            if attempt == 64 {
                eprintln!("[C19] the start-up probe never reported the order {want}; exploring one more process as it comes");
                unobserved.push(want.to_string());
            }
            let out = std::process::Command::new(&exe).arg("C19").arg(&run.tier).env("VERIF_C19_ORDER", want_env).env("VERIF_EVIDENCE_PATH", &evp).output().unwrap_or_else(|e| machinery_fail(&format!("cannot start worker: {e}")));
            let rc = out.status.code().unwrap_or(2);
            if rc == 3 {
                continue;
            }
            eprint!("{}", String::from_utf8_lossy(&out.stderr));
            for l in String::from_utf8_lossy(&out.stdout).lines() {
                if !lines.iter().any(|x| x == l) {
                    lines.push(l.to_string());
                }
            }
            if rc != 0 && rc != 1 {
                machinery_fail(&format!("worker for order {want} ended with code {rc}"));
            }
            worst = worst.max(rc);
            let txt = std::fs::read_to_string(&evp).unwrap_or_else(|e| machinery_fail(&format!("worker evidence {}: {e}", evp.display())));
            parts.push((want.to_string(), serde_json::from_str(&txt).unwrap_or_else(|e| machinery_fail(&format!("worker evidence: {e}")))));
            got = true;
            break;
        }
        if !got {
            machinery_fail(&format!("no worker process for system order {want}"));
        }
    }
    // merge: counts are summed, lists concatenated, the rule text taken once
    let mut cov = Map::new();
    let mut sigs: Vec<Value> = vec![];
    let mut assumptions: Vec<Value> = vec![];
    for (want, ev) in &parts {
        for (k, v) in ev["coverage"].as_object().unwrap() {
            match (cov.get(k).cloned(), v) {
                (Some(Value::Number(a)), Value::Number(b)) => {
                    cov.insert(k.clone(), json!(a.as_u64().unwrap_or(0) + b.as_u64().unwrap_or(0)));
                }
                (Some(Value::Array(mut a)), Value::Array(b)) => {
                    a.extend(b.iter().cloned());
                    cov.insert(k.clone(), Value::Array(a));
                }
                (Some(Value::Bool(a)), Value::Bool(b)) => {
                    cov.insert(k.clone(), json!(a && *b));
                }
                (Some(_), _) => {}
                (None, _) => {
                    cov.insert(k.clone(), v.clone());
                }
            }
        }
        cov.insert(format!("wall_s_{want}"), ev["wall_s"].clone());
        for sg in ev["coverage"]["violation_signatures"].as_array().unwrap() {
            if !sigs.contains(sg) {
                sigs.push(sg.clone());
            }
        }
        if assumptions.is_empty() {
            assumptions = ev["assumptions"].as_array().cloned().unwrap_or_default();
        }
    }
    cov.insert("violation_signatures".into(), Value::Array(sigs));
    cov.remove("system_order_in_this_process");
    cov.insert("system_orders_explored".into(), json!(["chain_animations before select_animation", "select_animation before chain_animations"]));
    cov.insert("worker_processes_started_to_obtain_both_orders".into(), json!(attempts));
    if !unobserved.is_empty() {
        cov.insert("system_orders_the_probe_never_reported".into(), json!(unobserved));
    }
    let violations: u64 = lines.iter().filter(|l| l.starts_with("VIOLATION")).count() as u64;
    let ev = json!({"property_id": "C19", "tier": run.tier, "seed": 0, "level": "model_checking", "coverage": Value::Object(cov), "assumptions": assumptions, "wall_s": t0.elapsed().as_secs_f64(), "violations": violations});
    let evpath = verif_root().join("evidence").join("C19.json");
    if let Err(e) = std::fs::write(&evpath, serde_json::to_string_pretty(&ev).unwrap()) {
        machinery_fail(&format!("cannot write evidence {}: {e}", evpath.display()));
    }
    for l in &lines {
        println!("{l}");
    }
    eprintln!("[C19] done in {:.1}s: both system orders explored, verdict lines={} evidence={}", t0.elapsed().as_secs_f64(), lines.len(), evpath.display());
    std::process::exit(worst)
}

fn explore(run: Run, chain_first: bool) -> ! {
    let thorough = run.is_thorough();
    let depth = if thorough { 6 } else { 5 };
    eprintln!("[C19] system order in this process: {}", if chain_first { "chain, select, animate" } else { "select, chain, animate" });
    // all key-assignment histories: before each frame {nothing, A, B, C, N}
    let opts: [Option<K>; 5] = [None, Some(K::A), Some(K::B), Some(K::C), Some(K::N)];
    let mut hs: Vec<Vec<Option<K>>> = vec![vec![]];
    for _ in 0..depth {
        let mut next = vec![];
        for h in &hs {
            for o in opts {
                let mut x = h.clone();
                x.push(o);
                next.push(x);
            }
        }
        hs = next;
    }
    let nsched = 3usize.pow(depth as u32);
    let mut acc = par_fold(
        nsched,
        Acc::default,
        |si, acc| {
            let mut sched = vec![];
            let mut c = si;
            for _ in 0..depth {
                sched.push(DELTAS[c % 3]);
                c /= 3;
            }
            run_schedule(&sched, &hs, &[None], chain_first, (si as u64) << 40, acc);
        },
        merge,
    );
    // deviation pass: default delta 1/4 over a longer horizon, <= k other deltas, <= 2 assignments
    let (horizon, k) = if thorough { (12usize, 3usize) } else { (10usize, 2usize) };
    let mut scheds: Vec<Vec<f64>> = vec![];
    fn rec(h: usize, k: usize, cur: &mut Vec<f64>, used: usize, out: &mut Vec<Vec<f64>>) {
        if cur.len() == h {
            out.push(cur.clone());
            return;
        }
        cur.push(0.25);
        rec(h, k, cur, used, out);
        cur.pop();
        if used < k {
            for d in [0.0, 8.0] {
                cur.push(d);
                rec(h, k, cur, used + 1, out);
                cur.pop();
            }
        }
    }
    rec(horizon, k, &mut vec![], 0, &mut scheds);
    let mut hdev: Vec<Vec<Option<K>>> = vec![vec![None; horizon]];
    for p1 in 0..horizon {
        for k1 in KEYS {
            let mut h = vec![None; horizon];
            h[p1] = Some(k1);
            hdev.push(h.clone());
            for p2 in (p1 + 1)..horizon.min(p1 + 4) {
                for k2 in KEYS {
                    let mut h2 = h.clone();
                    h2[p2] = Some(k2);
                    hdev.push(h2);
                }
            }
        }
    }
    let dev = par_fold(scheds.len(), Acc::default, |si, acc| run_schedule(&scheds[si], &hdev, &[None], chain_first, (1u64 << 62) | (si as u64) << 40, acc), merge);
    let dev_apps = dev.apps;
    merge(&mut acc, dev);
    // disabled pass: the governed animator is disabled for a window of frames (key changes made meanwhile must
    // take effect - re-target and rewind at once, start playing once enabled); all schedules x histories with
    // <= 2 assignments x 4 windows
    let mut hdis: Vec<Vec<Option<K>>> = vec![vec![None; depth]];
    for p1 in 0..depth {
        for k1 in KEYS {
            let mut h = vec![None; depth];
            h[p1] = Some(k1);
            hdis.push(h.clone());
            for p2 in (p1 + 1)..depth {
                for k2 in KEYS {
                    let mut h2 = h.clone();
                    h2[p2] = Some(k2);
                    hdis.push(h2);
                }
            }
        }
    }
    let windows = [Some((0usize, 2usize)), Some((1, 3)), Some((2, 4)), Some((1, depth))];
    let disp = par_fold(
        nsched,
        Acc::default,
        |si, acc| {
            let mut sched = vec![];
            let mut c = si;
            for _ in 0..depth {
                sched.push(DELTAS[c % 3]);
                c /= 3;
            }
            run_schedule(&sched, &hdis, &windows, chain_first, (3u64 << 60) | (si as u64) << 40, acc);
        },
        merge,
    );
    let dis_apps = disp.apps;
    merge(&mut acc, disp);
    // pause pass: the virtual clock is paused during one or two frames (all schedules x histories with <= 2
    // assignments x 6 pause patterns)
    let masks = [0b00010u32, 0b00100, 0b01000, 0b10000, 0b00110, 0b01010];
    let pausep = par_fold(
        nsched * masks.len(),
        Acc::default,
        |ii, acc| {
            let (si, mi) = (ii / masks.len(), ii % masks.len());
            let mut sched = vec![];
            let mut c = si;
            for _ in 0..depth {
                sched.push(DELTAS[c % 3]);
                c /= 3;
            }
            run_schedule_paused(&sched, &hdis, &[None], masks[mi], chain_first, (5u64 << 60) | (ii as u64) << 40, acc);
        },
        merge,
    );
    let pause_apps = pausep.apps;
    merge(&mut acc, pausep);
    // hot-swap pass: before frame 1, 2 or 3 the user replaces the governed animator's timeline by a shorter one
    // (Animator::set_timeline, no reset); the animator then ends by ITS timeline and the chain must follow (S5)
    let swapp = par_fold(
        nsched * 3,
        Acc::default,
        |ii, acc| {
            let (si, sf) = (ii / 3, ii % 3 + 1);
            let mut sched = vec![];
            let mut c = si;
            for _ in 0..depth {
                sched.push(DELTAS[c % 3]);
                c /= 3;
            }
            SWAP.with(|p| p.set(Some(sf)));
            run_schedule(&sched, &hdis, &[None], chain_first, (6u64 << 60) | (ii as u64) << 40, acc);
            SWAP.with(|p| p.set(None));
        },
        merge,
    );
    let swap_apps = swapp.apps;
    merge(&mut acc, swapp);
    // mirror pass over all schedules of length depth+2
    let mdepth = depth + 2;
    let mir = par_fold(
        3usize.pow(mdepth as u32),
        Acc::default,
        |si, acc| {
            let mut sched = vec![];
            let mut c = si;
            for _ in 0..mdepth {
                sched.push(DELTAS[c % 3]);
                c /= 3;
            }
            mirror_c_governed(&sched, (2u64 << 60) | (si as u64) << 20, acc);
            mirror_q_governed(&sched, (2u64 << 60) | (1 << 59) | (si as u64) << 20, acc);
        },
        merge,
    );
    let mir_apps = mir.apps;
    merge(&mut acc, mir);
    let mut cov = Map::new();
    cov.insert("states".into(), json!(acc.entity_frames));
    cov.insert("transitions".into(), json!(acc.entity_frames));
    cov.insert("traces_validated_against_impl".into(), json!(acc.apps));
    cov.insert("evaluations".into(), json!(acc.rule_checks));
    cov.insert("distinct_nontrivial".into(), json!(acc.switches + acc.chain_fires));
    cov.insert("rule".into(), json!(format!("real headless bevy App (AnimationPlugin<C>, AnimationPlugin<Q>, register_animation_key::<C,K>, hand-driven Time), the whole exploration once in a process where chain_animations runs before select_animation and once in a process with the opposite order (the check re-executes itself until it has both; counts are sums over the two): ALL {} frame-delta schedules of length {} over {{1/4, 8, 0}} s x ALL {} key-assignment histories (before each frame: nothing or key := A|B|C|N, including the current key) x 7 chain maps (none, A->B, A->B+B->A, A->N, B->C, the self-maps A->A+B->B, reset_after(B)); initial key A (default), B (builder) or - for the chain map B->C - N, a key without a timeline, with the animator spawned holding a timeline of its own x {{one animated component, a second component Q with its own short animator}}; plus a deviation-bounded pass ({} schedules of {} frames, default delta 1/4, <= {} deviations) with <= 2 assignments; plus a disabled pass ({} Apps: all schedules x histories with <= 2 assignments x 4 windows of frames during which the governed animator is disabled: a key change made meanwhile re-targets and rewinds it at once and it plays once enabled; nothing else moves while disabled); plus a pause pass ({} Apps: Time::pause during one or two frames - the delta of those frames is zero, selector and chain keep working); plus a hot-swap pass ({} Apps: before frame 1, 2 or 3 the user replaces the governed animator's timeline by a 0.25 s one with Animator::set_timeline - position and state carry over, the component follows the new timeline, the animator ends by it and the chain follows); plus a mirror pass ({} Apps: all schedules of length {}, entities whose OTHER animator is reset before every frame and therefore reports a state change in every frame, once with C governed / Q foreign and once with Q governed / C foreign, so that both orders of the two events occur whatever order the animate systems have in this process; S5/S6 only). Rules: S1 component unchanged in the frame a key change is acted on; S2 animation restarted from position 0 on the new key's timeline, thereafter the component equals that timeline started from the values at the switch; S3 key without timeline: state None, component frozen; S4 re-assigning the current key restarts nothing; S5 governed animator ended on k in frame f and chain(k)=k' and the user did not re-assign => key is k' in frame f+1; S6 the key changes only by assignment or S5 (the Ended must come from the governed animator and be applied to the key that ended). non-trivial = key changes acted on + chain moves", nsched, depth, hs.len(), dev_apps, horizon, k, dis_apps, pause_apps, swap_apps, mir_apps, mdepth)));
    cov.insert("exhaustive".into(), json!(true));
    cov.insert("apps".into(), json!(acc.apps));
    cov.insert("system_order_in_this_process".into(), json!(if chain_first { "chain_animations, select_animation, animate" } else { "select_animation, chain_animations, animate" }));
    cov.insert("key_switches_acted_on".into(), json!(acc.switches));
    cov.insert("chain_moves_observed".into(), json!(acc.chain_fires));
    cov.insert("distinct_observed_outcomes_capped".into(), json!(acc.outcomes.len()));
    cov.insert("samples".into(), json!(acc.samples));
    run.finish(acc.sink, cov, vec!["chain_animations and select_animation are mutually unordered in the plugin and bevy seeds its hash maps per process, so their order varies from run to run; it is probed at start-up and the reference selector is parametrised by it (both orders were exercised during development)".into(), "animator-internal rules are C18's".into()])
}

pub fn replay(case: &Value) -> bool {
    // a case is replayed under the system order it was found in: re-execute until this process has it
    if let Some(want) = case["chain_animations_before_select_animation"].as_bool() {
        if probe_chain_first() != want {
            let depth: u32 = std::env::var("VERIF_C19_REPLAY_DEPTH").ok().and_then(|x| x.parse().ok()).unwrap_or(0);
            if depth < 64 {
                let exe = std::env::current_exe().unwrap_or_else(|e| machinery_fail(&format!("current_exe: {e}")));
                let st = std::process::Command::new(exe).args(std::env::args().skip(1)).env("VERIF_C19_REPLAY_DEPTH", (depth + 1).to_string()).status().unwrap_or_else(|e| machinery_fail(&format!("re-exec: {e}")));
                std::process::exit(st.code().unwrap_or(2));
            }
            println!("note: the recorded system order did not turn up in 64 processes; replaying under the other order");
        }
    }
    let sched: Vec<f64> = case["frame_deltas_s"].as_array().map(|a| a.iter().map(|x| x.as_f64().unwrap()).collect()).unwrap_or_default();
    let assign: Vec<Option<K>> = case["key_assignment_before_each_frame"].as_array().map(|a| a.iter().map(|x| x.as_str().map(|s| *KEYS.iter().find(|k| format!("{k:?}") == s).unwrap())).collect()).unwrap_or_default();
    let mut acc = Acc::default();
    let dis = case["animator_disabled_before_frame_and_enabled_before_frame"].as_array().map(|a| (a[0].as_u64().unwrap() as usize, a[1].as_u64().unwrap() as usize));
    let mask = case["virtual_clock_paused_during_frames_bitmask"].as_u64().unwrap_or(0) as u32;
    SWAP.with(|p| p.set(case["user_hot_swaps_timeline_before_frame"].as_u64().map(|x| x as usize)));
    TRACE.with(|t| t.set(Some((case["chain_map_index"].as_u64().unwrap_or(0) as usize, case["second_animated_component"].as_bool().unwrap_or(false)))));
    run_schedule_paused(&sched, &[assign], &[dis], mask, probe_chain_first(), 0, &mut acc);
    SWAP.with(|p| p.set(None));
    let want_chain = case["chain_map_index"].as_u64().unwrap_or(0);
    let want_two = case["second_animated_component"].as_bool().unwrap_or(false);
    let mut ok = true;
    for (s, v) in &acc.sink.map {
        if v.case["chain_map_index"].as_u64() == Some(want_chain) && v.case["second_animated_component"].as_bool() == Some(want_two) {
            println!("{s}: {}", v.desc);
            ok = false;
        }
    }
    ok
}
