//! C20 — valid configurations never panic or produce non-finite values; debug == release.

use mina::prelude::*;
use serde_json::{json, Map, Value};
use std::panic::{catch_unwind, AssertUnwindSafe};
use vlib::spec::*;
use vlib::util::*;

fn configs() -> Vec<Timing> {
    let mut v = vec![];
    // (positive subnormal cycle durations are positive durations like any other)
    // (delays include huge negative ones: a finite time minus such a delay overflows f32)
    for &cycle in &[1.0e-45f32, 1.0e-40, f32::MIN_POSITIVE, 1e-30, 1e-3, 1.0, 1e3, 1e30, 2.0e38, f32::MAX] {
        for &delay in &[0.0f32, 1e-30, 1.0, 1e30, -1.0, -1e30, -1e32, -f32::MAX] {
            for rep in [Rep::None, Rep::Times(0), Rep::Times(1), Rep::Times(1 << 24), Rep::Times((1 << 24) + 1), Rep::Times(u32::MAX - 1), Rep::Times(u32::MAX), Rep::Infinite] {
                for reverse in [false, true] {
                    let t = Timing::new(cycle, delay, rep, reverse);
                    // validity bound: the total duration must be representable, and so must the length of all
                    // cycles together (cycle x (repeats + 1), which the total is computed from)
                    if let Some(total) = t.total() {
                        if total > f32::MAX as f64 || total - delay as f64 > f32::MAX as f64 {
                            continue;
                        }
                    }
                    v.push(t);
                }
            }
        }
    }
    v
}

fn kf(pos: f32, a: Option<f32>, k: Option<i32>, e: Option<u8>) -> Kf {
    Kf { pos, a, k, d: None, easing: e }
}

fn keyframe_sets() -> Vec<Vec<Kf>> {
    vec![
        vec![],
        vec![kf(1.0, Some(96.0), Some(250), None)],
        vec![kf(0.0, Some(-64.0), Some(-100), None), kf(1.0, Some(400.0), Some(7), None)],
        vec![kf(0.25, Some(16.0), None, Some(1)), kf(0.75, None, Some(1000), Some(2))],
        vec![kf(0.5, Some(-8.0), Some(64), Some(6)), kf(0.5, Some(200.0), None, None)],
        vec![kf(0.0, Some(1.0), None, Some(7)), kf(1.0, Some(-1.0), Some(-31), None)],
        // extreme but finite values (the statement only asks for finite values)
        vec![kf(0.0, Some(-f32::MAX), Some(i32::MIN), None), kf(1.0, Some(f32::MAX), Some(2147483520), None)],
        vec![kf(0.25, Some(3.0e38), Some(-2147483520), Some(1)), kf(0.75, Some(-3.0e38), Some(2147483520), None)],
        // properties resting at exactly zero between two keyframes (f32 and f64; +0 and -0), first keyframe not at 0%
        vec![Kf { pos: 0.25, a: Some(0.0), k: Some(0), d: Some(0.0), easing: None }, Kf { pos: 0.75, a: Some(-0.0), k: Some(0), d: Some(-0.0), easing: Some(1) }, Kf { pos: 1.0, a: Some(5.0), k: Some(5), d: Some(5.0), easing: None }],
        // keyframes a subnormal distance apart (distinct positions whose gap has no finite reciprocal)
        vec![kf(0.0, Some(0.0), Some(0), None), kf(1.0e-40, Some(100.0), Some(100), None), kf(1.0, Some(50.0), Some(50), None)],
        vec![kf(0.0, Some(-7.0), None, Some(1)), kf(f32::from_bits(1), Some(7.0), Some(3), None), kf(0.5, Some(1.0), Some(-3), None)],
        // 25+ keyframes of which 8 sit on consecutive f32 values, inserted out of order (a build-time sort must cope)
        crate::common::cluster_spec(2, Timing::new(1.0, 0.0, Rep::None, false)).0.kfs,
        crate::common::cluster_spec(3, Timing::new(1.0, 0.0, Rep::None, false)).0.kfs,
        // 21 consecutive f32 positions above 1/2, declared in one pass per property (stride 3), between 0% and 100%
        {
            let pos = |i: u32| f32::from_bits(0.5f32.to_bits() + i);
            let val = |i: u32| if i % 2 == 0 { 5.0f32 } else { 250.0 };
            let mut v = vec![Kf { pos: 0.0, a: Some(0.0), k: Some(0), d: Some(0.0), easing: None }];
            v.extend((0..21u32).step_by(3).map(|i| Kf { pos: pos(i), a: Some(val(i)), k: None, d: None, easing: None }));
            v.extend((1..21u32).step_by(3).map(|i| Kf { pos: pos(i), a: None, k: Some(val(i) as i32), d: None, easing: None }));
            v.extend((2..21u32).step_by(3).map(|i| Kf { pos: pos(i), a: None, k: None, d: Some(val(i) as f64), easing: None }));
            v.push(Kf { pos: 1.0, a: Some(255.0), k: Some(255), d: Some(255.0), easing: None });
            v
        },
        // many keyframes (index arithmetic beyond any small bound): 257 and 513 structured keyframes, and 300
        // keyframes alternating between large finite values
        crate::common::wide_spec(8, 0, Timing::new(1.0, 0.0, Rep::None, false)).kfs,
        crate::common::wide_spec(9, 1, Timing::new(1.0, 0.0, Rep::None, false)).kfs,
        (0..300).map(|i| kf(i as f32 / 299.0, Some(if i % 2 == 0 { 1.0e36 } else { -1.0e36 }), Some(if i % 3 == 0 { 2_000_000_000 } else { -2_000_000_000 }), if i % 7 == 0 { Some(1) } else { None })).collect(),
    ]
}

fn times(c: &Timing) -> Vec<f32> {
    let mut v = vec![0.0, -0.0, f32::MIN_POSITIVE, 1e30, f32::MAX, c.delay];
    let reps: f64 = match c.rep {
        Rep::None => 0.0,
        Rep::Times(n) => n as f64,
        Rep::Infinite => 3.0,
    };
    // inside the first and second cycle (every 1/16, off the keyframe grid)
    for j in 0..32 {
        let b = c.delay as f64 + (j as f64 + 0.53) / 16.0 * c.cycle as f64;
        if b <= f32::MAX as f64 {
            v.push(b as f32);
        }
    }
    let mut js = vec![0.0, 0.5, 1.0, 1.5, 2.0, 3.0, 4.0, 5.0];
    js.extend([2.0 * reps, 2.0 * reps + 1.0, 2.0 * reps + 2.0, 2.0 * reps + 3.0]);
    for j in js {
        let b = c.delay as f64 + j * c.cycle as f64 / 2.0;
        if b <= f32::MAX as f64 {
            let b = b as f32;
            for k in -2..=2 {
                let t = step_ulps(b, k);
                if t >= 0.0 && t.is_finite() {
                    v.push(t);
                }
            }
        }
    }
    v
}

const ADVANCES: [f32; 7] = [0.0, 1.0 / 512.0, 1.0, 1e10, 1e19, 1e20, f32::MAX];

struct Out {
    digest: Digest,
    problems: Vec<(String, String, Value)>,
    ops: u64,
}

fn finite_p(p: &P) -> bool {
    p.a.is_finite() && p.d.is_finite() && p.u.is_finite() && p.z.is_finite()
}

/// Runs every operation of the C20 alphabet for one (timing, keyframe set); returns the digest of
/// all results and the list of problems (panics, non-finite, out-of-range).
fn run_case(c: &Timing, ci: usize, kfs: &[Kf], ki: usize) -> Out {
    let mut out = Out { digest: Digest::default(), problems: vec![], ops: 0 };
    let spec = TlSpec { kfs: kfs.to_vec(), default_easing: 0, timing: *c };
    let casej = |what: &str, t: Option<f32>| json!({"timing": c.to_json(), "config_index": ci, "keyframe_set": ki, "timeline": spec.to_json(), "operation": what, "time": t.map(fj), "time_bits": t.map(|t| format!("{:08x}", t.to_bits()))});
    let repname = match c.rep {
        Rep::Times(u32::MAX) => "Times(u32::MAX)",
        Rep::Times(_) => "Times",
        Rep::None => "None",
        Rep::Infinite => "Infinite",
    };
    macro_rules! guard {
        ($what:expr, $t:expr, $body:expr) => {{
            out.ops += 1;
            match catch_unwind(AssertUnwindSafe(|| $body)) {
                Ok(v) => Some(v),
                Err(_) => {
                    out.digest.push(0xDEAD);
                    out.problems.push((format!("panic:{}:{}", $what, repname), format!("{} panicked ({:?})", $what, c), casej($what, $t)));
                    None
                }
            }
        }};
    }
    let Some(tl) = guard!("build", None, spec.build()) else { return out };
    // metadata
    if let Some(d) = guard!("duration", None, tl.duration()) {
        out.digest.push(d.to_bits() as u64);
        if d.is_nan() || (d.is_infinite() && c.rep != Rep::Infinite) {
            out.problems.push((format!("non-finite:duration:{repname}"), format!("duration() = {d} for {:?}", c), casej("duration", None)));
        }
    }
    if let Some(d) = guard!("delay", None, tl.delay()) {
        out.digest.push(d.to_bits() as u64);
    }
    if let Some(d) = guard!("cycle_duration", None, tl.cycle_duration()) {
        out.digest.push(d.map(|x| x.to_bits() as u64).unwrap_or(1));
    }
    if let Some(r) = guard!("repeat", None, tl.repeat()) {
        out.digest.push(match r {
            Repeat::None => 0,
            Repeat::Times(n) => 1 + n as u64,
            Repeat::Infinite => u64::MAX,
        });
    }
    // the other queries every timeline offers: Debug formatting (P has fields no keyframe sets)
    let _ = guard!("debug-format", None, format!("{:?}", tl).len());
    // evaluation
    let (amin, amax) = kfs.iter().filter_map(|k| k.a).fold((0.0f32, 0.0f32), |(lo, hi), v| (lo.min(v), hi.max(v)));
    let init = P { a: 0.0, k: 0, d: 0.0, u: 1.0, z: 2.0 };
    let mut tl_s = tl.clone();
    let _ = guard!("start_with", None, tl_s.start_with(&P { a: 5.0, k: 5, ..P::default() }));
    for t in times(c) {
        for (which, tlx, lo, hi) in [("update", &tl, amin, amax), ("update-after-start_with", &tl_s, amin.min(5.0), amax.max(5.0))] {
            if let Some(p) = guard!(which, Some(t), { let mut p = init.clone(); tlx.update(&mut p, t); p }) {
                for b in p.bits() {
                    out.digest.push(b);
                }
                if !finite_p(&p) {
                    out.problems.push((format!("non-finite:{which}:{repname}"), format!("update({t}) produced {:?}", p), casej(which, Some(t))));
                } else if p.a < lo - 1e-3 - lo.abs() * 1e-6 || p.a > hi + 1e-3 + hi.abs() * 1e-6 {
                    out.problems.push((format!("out-of-keyframe-range:{which}:{repname}"), format!("update({t}) produced a={} outside [{lo},{hi}]", p.a), casej(which, Some(t))));
                }
            }
        }
    }
    // animator: X has this timeline, Y a plain one, U1 none
    let anim = guard!("animator-build", None, {
        StateAnimatorBuilder::<S4, PTimeline>::new()
            .from_state(S4::X)
            .from_values(P { a: 3.0, k: 3, ..P::default() })
            .on(S4::X, spec.build())
            .on(S4::Y, TlSpec { kfs: keyframe_sets()[2].clone(), default_easing: 0, timing: Timing::new(1.0, 0.0, Rep::None, false) }.build())
            .build()
    });
    if let Some(mut anim) = anim {
        for (i, &dt) in ADVANCES.iter().enumerate() {
            for rep in 0..2 {
                let what = format!("advance({dt:e})#{rep}");
                let tag = if dt >= 1e20 { "advance-huge" } else if dt >= 1e19 { "advance-1e19" } else { "advance" };
                out.ops += 1;
                match catch_unwind(AssertUnwindSafe(|| {
                    anim.advance(dt);
                    (anim.current_values().clone(), anim.is_ended())
                })) {
                    Ok((p, ended)) => {
                        for b in p.bits() {
                            out.digest.push(b);
                        }
                        out.digest.push(ended as u64);
                        if !finite_p(&p) {
                            out.problems.push((format!("non-finite:{tag}:{repname}"), format!("{what} produced {:?}", p), casej(&what, None)));
                        }
                    }
                    Err(_) => {
                        out.digest.push(0xDEAD);
                        out.problems.push((format!("panic:{tag}"), format!("StateAnimator::advance({dt:e}) panicked (call #{} of the advance sequence {:?})", 2 * i + rep + 1, ADVANCES), casej(&what, None)));
                        // the animator may be poisoned mid-operation; rebuild state for later ops
                    }
                }
            }
            if i == 2 || i == 4 {
                for s in [S4::U1, S4::X, S4::Y, S4::X] {
                    out.ops += 1;
                    match catch_unwind(AssertUnwindSafe(|| {
                        anim.set_state(&s);
                        (anim.current_values().clone(), anim.is_ended())
                    })) {
                        Ok((p, ended)) => {
                            for b in p.bits() {
                                out.digest.push(b);
                            }
                            out.digest.push(ended as u64);
                            if !finite_p(&p) {
                                out.problems.push((format!("non-finite:set_state:{repname}"), format!("set_state({s:?}) produced {:?}", p), casej("set_state", None)));
                            }
                        }
                        Err(_) => {
                            out.digest.push(0xDEAD);
                            out.problems.push((format!("panic:set_state:{repname}"), format!("set_state({s:?}) panicked"), casej("set_state", None)));
                        }
                    }
                }
            }
        }
    }
    out
}


// ------------------------------------------------------------------------------------------------
// Rotation properties: glam quaternions are supported property types (e.g. the rotation of a remote Transform
// proxy). Finite unit quaternions in, finite values out - at every time, whatever the relation between two
// neighbouring keyframe values (equal, opposite sign of the same rotation, orthogonal, w = 0 ...).

#[derive(Animate, Clone, Debug, Default, PartialEq)]
pub struct Rot {
    #[animate]
    pub q: glam::Quat,
    #[animate]
    pub dq: glam::DQuat,
    #[animate]
    pub v: glam::Vec3,
}

fn unit_quats() -> Vec<glam::Quat> {
    use glam::Quat;
    let h = std::f32::consts::FRAC_1_SQRT_2;
    let mut v = vec![
        Quat::IDENTITY,
        Quat::from_xyzw(0.0, 0.0, 1.0, 0.0),
        Quat::from_xyzw(0.0, 0.0, -1.0, 0.0),
        Quat::from_xyzw(1.0, 0.0, 0.0, 0.0),
        Quat::from_xyzw(-1.0, 0.0, 0.0, 0.0),
        Quat::from_xyzw(0.0, 0.0, 0.0, -1.0),
        Quat::from_xyzw(0.0, h, 0.0, h),
        Quat::from_xyzw(0.0, -h, 0.0, -h),
        Quat::from_xyzw(h, 0.0, h, 0.0),
        Quat::from_xyzw(-h, 0.0, -h, 0.0),
        Quat::from_xyzw(0.5, 0.5, 0.5, 0.5),
        Quat::from_xyzw(-0.5, -0.5, -0.5, -0.5),
        Quat::from_xyzw(0.5, -0.5, 0.5, -0.5),
    ];
    v.push(Quat::from_rotation_z(0.3));
    v.push(Quat::from_rotation_x(2.9));
    v
}

/// Every ordered pair of the unit quaternions as the two keyframes of a rotation property x easings
/// Linear / InOut / OutBack x a 1/16 time grid; results pushed into the digest (debug == release).
fn run_quats() -> Out {
    let mut out = Out { digest: Digest::default(), problems: vec![], ops: 0 };
    let qs = unit_quats();
    for (i, a) in qs.iter().enumerate() {
        for (j, b) in qs.iter().enumerate() {
            for (ei, easing) in [Easing::Linear, Easing::InOut, Easing::OutBack].into_iter().enumerate() {
                let (da, db) = (glam::DQuat::from_xyzw(a.x as f64, a.y as f64, a.z as f64, a.w as f64), glam::DQuat::from_xyzw(b.x as f64, b.y as f64, b.z as f64, b.w as f64));
                let casej = |t: f32| json!({"struct": "Rot { q: Quat, dq: DQuat, v: Vec3 }", "from": format!("{a:?}"), "to": format!("{b:?}"), "easing": format!("{easing:?}"), "time": fj(t), "config_index": usize::MAX, "keyframe_set": 0});
                out.ops += 1;
                let built = catch_unwind(AssertUnwindSafe(|| {
                    Rot::timeline()
                        .duration_seconds(1.0)
                        .default_easing(easing.clone())
                        .keyframe(Rot::keyframe(0.0).q(*a).dq(da).v(glam::Vec3::new(a.x, a.y, a.z)))
                        .keyframe(Rot::keyframe(1.0).q(*b).dq(db).v(glam::Vec3::new(b.x, b.y, b.z)))
                        .build()
                }));
                let Ok(tl) = built else {
                    out.problems.push(("panic:quat:build".into(), format!("building a rotation timeline from {a:?} to {b:?} panicked"), casej(0.0)));
                    continue;
                };
                for k in 0..=16 {
                    let t = k as f32 / 16.0;
                    out.ops += 1;
                    match catch_unwind(AssertUnwindSafe(|| { let mut r = Rot::default(); tl.update(&mut r, t); r })) {
                        Ok(r) => {
                            for c in [r.q.x, r.q.y, r.q.z, r.q.w, r.v.x, r.v.y, r.v.z] {
                                out.digest.push(c.to_bits() as u64);
                            }
                            for c in [r.dq.x, r.dq.y, r.dq.z, r.dq.w] {
                                out.digest.push(c.to_bits());
                            }
                            if !(r.q.is_finite() && r.dq.is_finite() && r.v.is_finite()) {
                                out.problems.push((format!("non-finite:quat:{}", if i == j { "equal-keyframes" } else if (a.dot(*b) + 1.0).abs() < 1e-6 { "opposite-sign-keyframes" } else { "other" }), format!("rotation from {a:?} to {b:?} ({easing:?}) at t={t}: {:?}", r), casej(t)));
                            }
                        }
                        Err(_) => {
                            out.digest.push(0xDEAD);
                            out.problems.push(("panic:quat:update".into(), format!("rotation from {a:?} to {b:?} ({easing:?}) panicked at t={t}"), casej(t)));
                        }
                    }
                }
                let _ = ei;
            }
        }
    }
    out
}

/// Settings left out are valid configurations too (the builder supplies its defaults): every subset of
/// {duration, delay, repeat, reverse} omitted, three keyframe layouts, as a timeline and inside an animator.
/// One entry per case; an empty signature means the case is fine.
fn settings_omitted() -> Vec<(String, u64, String, Value)> {
    let mut out = vec![];
    for mask in 0..16u32 {
        for (li, layout) in [[(0.0f32, 10.0f32, 1i32), (0.5, 60.0, 100)], [(0.0, 10.0, 1), (1.0, 60.0, 100)], [(0.25, 10.0, 1), (0.75, 60.0, 100)]].iter().enumerate() {
            for rep in [Repeat::Times(2), Repeat::Infinite] {
                let casej = || json!({"timeline": format!("P::timeline() with the setters {{duration_seconds(2): {}, delay_seconds(0.5): {}, repeat({rep:?}): {}, reverse(true): {}}} and keyframes {layout:?}", mask & 1 != 0, mask & 2 != 0, mask & 4 != 0, mask & 8 != 0), "family": "settings-omitted", "mask": mask});
                let r = catch_unwind(AssertUnwindSafe(|| {
                    let mut b = P::timeline();
                    if mask & 1 != 0 {
                        b = b.duration_seconds(2.0);
                    }
                    if mask & 2 != 0 {
                        b = b.delay_seconds(0.5);
                    }
                    if mask & 4 != 0 {
                        b = b.repeat(rep);
                    }
                    if mask & 8 != 0 {
                        b = b.reverse(true);
                    }
                    for (pos, a, k) in layout.iter() {
                        b = b.keyframe(P::keyframe(*pos).a(*a).k(*k));
                    }
                    let tl = b.build();
                    let mut worst: Option<String> = None;
                    for t in [0.0f32, 0.25, 0.5, 0.75, 1.0, 1.5, 2.0, 2.5, 3.0, 100.0, 1.0e6] {
                        let mut p = P::default();
                        tl.update(&mut p, t);
                        if !finite_p(&p) && worst.is_none() {
                            worst = Some(format!("update(t = {t}) gives {p:?}"));
                        }
                    }
                    if !tl.delay().is_finite() || tl.cycle_duration().map(|c| !(c > 0.0) || !c.is_finite()).unwrap_or(false) || tl.duration().is_nan() {
                        worst.get_or_insert(format!("metadata: delay {} cycle {:?} duration {}", tl.delay(), tl.cycle_duration(), tl.duration()));
                    }
                    let mut anim = StateAnimatorBuilder::<S4, PTimeline>::new().from_state(S4::U1).on(S4::X, tl).build();
                    anim.set_state(&S4::X);
                    for d in [0.0f32, 0.25, 1.0, 8.0] {
                        anim.advance(d);
                        if !finite_p(anim.current_values()) && worst.is_none() {
                            worst = Some(format!("animator after advance({d}): {:?}", anim.current_values()));
                        }
                    }
                    worst
                }));
                match r {
                    Err(_) => out.push(("panic:settings-omitted".to_string(), (2u64 << 40) | (mask as u64) << 8 | li as u64, "a timeline built with some settings left to their defaults panicked when built, evaluated or animated".to_string(), casej())),
                    Ok(Some(w)) => out.push(("non-finite:settings-omitted".to_string(), (2u64 << 40) | (mask as u64) << 8 | li as u64, w, casej())),
                    Ok(None) => out.push((String::new(), 0, String::new(), Value::Null)),
                }
            }
        }
    }
    out
}

pub fn digest_only() {
    let cfgs = configs();
    let ks = keyframe_sets();
    for (ci, c) in cfgs.iter().enumerate() {
        for (ki, k) in ks.iter().enumerate() {
            let o = run_case(c, ci, k, ki);
            println!("D {ci} {ki} {:016x} {}", o.digest.0, o.problems.len());
        }
    }
    let o = run_quats();
    println!("D {} 0 {:016x} {}", cfgs.len(), o.digest.0, o.problems.len());
}

pub fn run(run: Run) -> ! {
    let cfgs = configs();
    let ks = keyframe_sets();
    let items: Vec<(usize, usize)> = (0..cfgs.len()).flat_map(|c| (0..ks.len()).map(move |k| (c, k))).collect();
    struct Acc {
        sink: VSink,
        ops: u64,
        digests: Vec<(usize, usize, u64)>,
    }
    let mut acc = par_fold(
        items.len(),
        || Acc { sink: VSink::new(), ops: 0, digests: vec![] },
        |i, acc| {
            let (ci, ki) = items[i];
            let o = run_case(&cfgs[ci], ci, &ks[ki], ki);
            acc.ops += o.ops;
            acc.digests.push((ci, ki, o.digest.0));
            for (j, (sig, desc, case)) in o.problems.into_iter().enumerate() {
                acc.sink.add(&sig, (i as u64) << 16 | j as u64, || (desc, case));
            }
        },
        |a, b| {
            a.sink.merge(b.sink);
            a.ops += b.ops;
            a.digests.extend(b.digests);
        },
    );
    // rotation properties
    {
        let o = run_quats();
        acc.ops += o.ops;
        acc.digests.push((cfgs.len(), 0, o.digest.0));
        for (j, (sig, desc, case)) in o.problems.into_iter().enumerate() {
            acc.sink.add(&sig, (1u64 << 40) | j as u64, || (desc, case));
        }
    }
    for (sig, rank, desc, case) in settings_omitted() {
        acc.ops += 20;
        if !sig.is_empty() {
            acc.sink.add(&sig, rank, || (desc, case));
        }
    }
    // copying merged timelines of different sizes over one another is an ordinary operation
    {
        let mk = |n: usize| MergedTimeline::of((0..n).map(|i| TlSpec { kfs: vec![kf(0.0, Some(i as f32), None, None), kf(1.0, Some(8.0), Some(3), None)], default_easing: 0, timing: Timing::new(1.0 + i as f32, 0.0, Rep::None, false) }.build()).collect::<Vec<PTimeline>>());
        for na in 0..4usize {
            for nb in 0..4usize {
                let (mut a, b) = (mk(na), mk(nb));
                acc.ops += 1;
                let r = catch_unwind(AssertUnwindSafe(|| {
                    a.clone_from(&b);
                    let mut p = P::default();
                    a.update(&mut p, 0.5);
                    (a.duration(), p)
                }));
                match r {
                    Err(_) => acc.sink.add("panic:merged-clone_from", (3u64 << 40) | (na as u64) << 8 | nb as u64, || (format!("clone_from of a merged timeline of {nb} components into one of {na} panicked"), json!({"family": "merged-clone_from", "target_components": na, "source_components": nb}))),
                    Ok((d, p)) => {
                        if d.to_bits() != b.duration().to_bits() || !finite_p(&p) {
                            acc.sink.add("non-finite:merged-clone_from", (3u64 << 40) | (na as u64) << 8 | nb as u64, || (format!("after clone_from ({nb} components into {na}): duration {d} (source {}), values {p:?}", b.duration()), json!({"family": "merged-clone_from", "target_components": na, "source_components": nb})));
                        }
                    }
                }
            }
        }
    }
    // the empty merged timeline is a valid (degenerate) configuration: its metadata must be finite
    {
        let empty: MergedTimeline<PTimeline> = MergedTimeline::of(Vec::<PTimeline>::new());
        let r = catch_unwind(AssertUnwindSafe(|| (empty.delay(), empty.duration(), empty.cycle_duration(), empty.repeat())));
        match r {
            Err(_) => acc.sink.add("panic:empty-merged-metadata", 0, || ("metadata query on MergedTimeline::of([]) panicked".into(), json!({"timeline": "MergedTimeline::of([])"}))),
            Ok((d, du, _c, _r)) => {
                if !d.is_finite() || !du.is_finite() {
                    acc.sink.add("non-finite:empty-merged-metadata", 0, || (format!("MergedTimeline::of([]): delay() = {d}, duration() = {du}"), json!({"timeline": "MergedTimeline::of([])"})));
                }
            }
        }
        let mut anim = StateAnimatorBuilder::<S4, PTimeline>::new().from_state(S4::X).on(S4::X, MergedTimeline::of(Vec::<PTimeline>::new())).build();
        if catch_unwind(AssertUnwindSafe(|| { anim.advance(1.0); anim.is_ended() })).is_err() {
            acc.sink.add("panic:empty-merged-animator", 0, || ("animator with an empty merged timeline panicked".into(), json!({"timeline": "MergedTimeline::of([])"})));
        }
        acc.ops += 6;
    }
    acc.digests.sort();
    // debug build of the same harness: digests must be identical
    let dbg = std::env::var("VCHECK_DEBUG_BIN").unwrap_or_default();
    let mut debug_compared = 0u64;
    if dbg.is_empty() {
        machinery_fail("VCHECK_DEBUG_BIN not set (run through ./check, which builds the debug harness)");
    }
    let outp = std::process::Command::new(&dbg).args(["C20", "--digest-only"]).output().unwrap_or_else(|e| machinery_fail(&format!("cannot run {dbg}: {e}")));
    if !outp.status.success() {
        machinery_fail(&format!("debug harness exited with {:?}", outp.status));
    }
    let txt = String::from_utf8_lossy(&outp.stdout);
    let mut dmap = std::collections::HashMap::new();
    for l in txt.lines() {
        let f: Vec<&str> = l.split_whitespace().collect();
        if f.len() == 5 && f[0] == "D" {
            dmap.insert((f[1].parse::<usize>().unwrap(), f[2].parse::<usize>().unwrap()), u64::from_str_radix(f[3], 16).unwrap());
        }
    }
    if dmap.len() != acc.digests.len() {
        machinery_fail(&format!("debug harness reported {} cases, release {}", dmap.len(), acc.digests.len()));
    }
    for (ci, ki, d) in &acc.digests {
        debug_compared += 1;
        if dmap.get(&(*ci, *ki)) != Some(d) {
            if *ci >= cfgs.len() {
                acc.sink.add("debug-release-differ:quat", 0, || ("rotation-property results differ between debug and release builds".into(), json!({"family": "quaternion keyframes", "operation": "all (digest)"})));
                continue;
            }
            let c = &cfgs[*ci];
            let repname = match c.rep {
                Rep::Times(u32::MAX) => "Times(u32::MAX)",
                Rep::Times(_) => "Times",
                Rep::None => "None",
                Rep::Infinite => "Infinite",
            };
            acc.sink.add(&format!("debug-release-differ:{repname}"), (*ci as u64) << 8 | *ki as u64, || {
                (format!("results differ between debug and release builds for {:?} keyframe set {ki}", c), json!({"timing": c.to_json(), "config_index": ci, "keyframe_set": ki, "operation": "all (digest)"}))
            });
        }
    }
    let mut cov = Map::new();
    cov.insert("states".into(), json!(items.len()));
    cov.insert("transitions".into(), json!(acc.ops));
    cov.insert("traces_validated_against_impl".into(), json!(debug_compared));
    cov.insert("evaluations".into(), json!(acc.ops));
    cov.insert("distinct_nontrivial".into(), json!(items.len()));
    cov.insert("rule".into(), json!("cycle in {1.4e-45 and 1e-40 (subnormal),MIN_POSITIVE,1e-30,1e-3,1,1e3,1e30,2e38,f32::MAX} x delay in {0,1e-30,1,1e30} x repeat in {None,Times 0,1,2^24,2^24+1,u32::MAX-1,u32::MAX,Infinite} x reverse, restricted to configurations whose total duration is <= f32::MAX (validity bound), x 17 keyframe sets (one resting at exactly +-0 between keyframes; three with a cluster of keyframes on consecutive f32 values inserted out of order; two with keyframes a subnormal distance apart: positions 0 / 1e-40 and 0 / 1.4e-45; two with extreme finite values: +-f32::MAX, +-3e38, i32::MIN..2147483520; three with 257, 513 and 300 keyframes, the last alternating between +-1e36 / +-2e9); operations: build, duration, delay, cycle_duration, repeat, start_with, update (plain and after start_with) at {0, -0.0 (a finite time that is >= 0), MIN_POSITIVE, delay, every phase boundary +-0,1,2 ulp incl. the last cycles, 32 points inside the first two cycles, 1e30, f32::MAX}; the empty merged timeline (metadata finite); a rotation family (struct with Quat, DQuat and Vec3 properties: every ordered pair of 15 unit quaternions - equal, opposite sign, w = 0, orthogonal - as two keyframes x easings Linear/InOut/OutBack x a 1/16 time grid); animator build, advance(dt) for dt in {0,2^-9,1,1e10,1e19,1e20,f32::MAX} each twice, is_ended, set_state; every operation under catch_unwind; oracle: no panic, finite values, values within the keyframe range, and identical result digests from a debug and a release build of the same harness; states = (configuration, keyframe set) cases, transitions = operations"));
    cov.insert("exhaustive".into(), json!(true));
    cov.insert("debug_release_cases_compared".into(), json!(debug_compared));
    cov.insert("samples".into(), json!([{"timing": cfgs[cfgs.len() / 2].to_json(), "times": times(&cfgs[cfgs.len() / 2]).iter().map(|t| fj(*t)).collect::<Vec<_>>(), "advances": ADVANCES.iter().map(|t| fj(*t)).collect::<Vec<_>>()}]));
    run.finish(acc.sink, cov, vec!["debug profile: opt-level 1, overflow checks and debug assertions on; release: opt-level 3, both off".into()])
}

pub fn replay(case: &Value) -> bool {
    if case["family"] == "merged-clone_from" {
        let (na, nb) = (case["target_components"].as_u64().unwrap_or(0) as usize, case["source_components"].as_u64().unwrap_or(0) as usize);
        let mk = |n: usize| MergedTimeline::of((0..n).map(|i| TlSpec { kfs: vec![kf(0.0, Some(i as f32), None, None), kf(1.0, Some(8.0), Some(3), None)], default_easing: 0, timing: Timing::new(1.0 + i as f32, 0.0, Rep::None, false) }.build()).collect::<Vec<PTimeline>>());
        let (mut a, b) = (mk(na), mk(nb));
        let ok = catch_unwind(AssertUnwindSafe(|| a.clone_from(&b))).is_ok();
        println!("clone_from of {nb} components into {na}: {}", if ok { "ok" } else { "panicked" });
        return ok && a.duration().to_bits() == b.duration().to_bits();
    }
    if case["family"] == "settings-omitted" {
        let bad: Vec<_> = settings_omitted().into_iter().filter(|x| !x.0.is_empty()).collect();
        for (s, _, d, _) in &bad {
            println!("{s}: {d}");
        }
        return bad.is_empty();
    }
    let cfgs = configs();
    let ks = keyframe_sets();
    let ci = case["config_index"].as_u64().unwrap_or(0) as usize;
    let ki = case["keyframe_set"].as_u64().unwrap_or(0) as usize;
    let o = if ci >= cfgs.len() { run_quats() } else { run_case(&cfgs[ci], ci, &ks[ki], ki) };
    for (s, d, _) in &o.problems {
        println!("{s}: {d}");
    }
    println!("digest {:016x} (compare between debug and release builds)", o.digest.0);
    o.problems.is_empty()
}
