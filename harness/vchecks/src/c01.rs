//! C01 — CSS-style per-property interpolation. E1: T(n) x Theta x {no start, start} x tau.

use crate::common::*;
use mina::prelude::*;
use serde_json::{json, Map, Value};
use vlib::model::*;
use vlib::spec::*;
use vlib::util::*;

#[derive(Default)]
struct Acc {
    sink: VSink,
    timelines: u64,
    evals: u64,
    nontrivial: u64,
    ambiguous_skipped: u64,
    outcomes: std::collections::HashSet<u64>,
    samples: Vec<Value>,
}

fn check_one(spec: &TlSpec, rt: &RefTl, tl: &PTimeline, start: Option<&P>, t: f32, ph: &Phase, init: &P, rank: u64, acc: &mut Acc) {
    acc.evals += 1;
    let Some(got) = try_eval_real(tl, t, init) else {
        acc.sink.add("panic-in-update", rank, || (format!("t={t}: Timeline::update panicked"), case_json(spec, start, t, init)));
        return;
    };
    let want = rt.eval_phase(ph, start);
    let q = ph.pos();
    if rt.a.interpolating_at(q) {
        acc.nontrivial += 1;
    }
    if rt.k.interpolating_at(q) {
        acc.nontrivial += 1;
    }
    if rt.d.interpolating_at(q) {
        acc.nontrivial += 1;
    }
    if want.a == RV::Ambiguous || want.k == RV::Ambiguous {
        acc.ambiguous_skipped += 1;
    }
    if acc.outcomes.len() < 4096 {
        acc.outcomes.insert(got.bits()[0] ^ (got.bits()[1] << 32));
    }
    if let Err(msg) = compare(&got, init, &want, rt, start) {
        let sig = format!("value-mismatch:{}", msg.split(':').next().unwrap_or("?"));
        acc.sink.add(&sig, rank, || {
            (format!("t={t} {msg}"), {
                let mut c = case_json(spec, start, t, init);
                c["got"] = got.to_json();
                c["reference"] = json!(format!("{want:?}"));
                c["unit_test"] = json!(timeline_unit_test(spec, start, t, init, &asserts_for(&want, rt, start)));
                c
            })
        });
    }
}


const NGRID5: [f32; 5] = [0.0, 0.1, 0.3, 0.7, 1.0];

/// Non-dyadic companion family: positions 0.1/0.3/0.7, cycles 0.3/3/0.7/7, delay 0.1, built-in
/// Bezier easings, sample times that are not representable fractions. Same reference, same
/// tolerance; samples within the f32 jitter window of a discontinuity of the time map (cycle wrap,
/// end, first-pass boundary when a start value is substituted) are skipped and counted.
fn nondyadic_pass(nmax: usize) -> Acc {
    let timings = [
        Timing::new(0.3, 0.0, Rep::None, false),
        Timing::new(3.0, 0.1, Rep::Times(2), false),
        Timing::new(0.7, 0.1, Rep::None, true),
        Timing::new(0.3, 0.1, Rep::Infinite, true),
        Timing::new(7.0, 0.0, Rep::Times(1), true),
    ];
    let grids: Vec<Vec<f32>> = timings
        .iter()
        .map(|t| {
            let cycles = match t.rep {
                Rep::None => 1,
                Rep::Times(n) => n + 1,
                Rep::Infinite => 3,
            };
            let mut v = vec![0.0, t.delay * 0.5];
            for j in 0..(29 * cycles + 6) {
                v.push(t.delay + t.cycle * (j as f32 + 0.37) / 29.0);
            }
            v
        })
        .collect();
    let init = P::sentinel();
    let vs = vstar();
    let mut items: Vec<(usize, u64)> = vec![];
    for n in 0..=nmax {
        let c = count_t(n, 5);
        let mut s0 = 0;
        while s0 < c {
            items.push((n, s0));
            s0 += CHUNK;
        }
    }
    par_fold(
        items.len(),
        Acc::default,
        |i, acc| {
            let (n, s0) = items[i];
            for idx in s0..(s0 + CHUNK).min(count_t(n, 5)) {
                // easing alphabet: Ease (4) / InQuad (6) per keyframe, default Linear or InOutCubic (5)
                let kfs = decode_t(n, &NGRID5, idx, 4, 6, false).unwrap();
                for (ti, th) in timings.iter().enumerate() {
                    let spec = TlSpec { kfs: kfs.clone(), default_easing: if idx % 2 == 0 { 0 } else { 5 }, timing: *th };
                    let rt = RefTl::new(&spec);
                    let tl = spec.build();
                    let mut tls = tl.clone();
                    tls.start_with(&vs);
                    acc.timelines += 2;
                    let skip_start = rt.a.dup_at_zero || rt.k.dup_at_zero;
                    let rank = (1u64 << 60) | (n as u64) << 40 | idx << 8 | ti as u64;
                    for &t in &grids[ti] {
                        let w = 4.0 * (ulp32(t) as f64) + 4.0 * (ulp32((t - th.delay).abs().max(f32::MIN_POSITIVE)) as f64);
                        let (lo, hi) = (ref_phase64(th, t as f64 - w), ref_phase64(th, t as f64 + w));
                        let same_side = match (lo, hi) {
                            (Phase::NotStarted, Phase::NotStarted) => true,
                            (Phase::Ended { .. }, Phase::Ended { .. }) => true,
                            (Phase::Active { cycle: c1, reversing: r1, .. }, Phase::Active { cycle: c2, reversing: r2, .. }) => c1 == c2 && (r1 == r2 || th.reverse),
                            // NotStarted -> Active at the delay is continuous (position 0 on both sides)
                            (Phase::NotStarted, Phase::Active { cycle: 0, reversing: false, .. }) => true,
                            _ => false,
                        };
                        if !same_side {
                            acc.ambiguous_skipped += 1;
                            continue;
                        }
                        let ph = ref_phase(th, t);
                        check_one(&spec, &rt, &tl, None, t, &ph, &init, rank, acc);
                        if !skip_start {
                            // the substituted start value switches off at the reversal peak too
                            let peak = matches!((lo, hi), (Phase::Active { reversing: r1, .. }, Phase::Active { reversing: r2, .. }) if r1 != r2);
                            if !peak {
                                check_one(&spec, &rt, &tls, Some(&vs), t, &ph, &init, rank, acc);
                            }
                        }
                    }
                }
            }
        },
        |a, b| {
            a.sink.merge(b.sink);
            a.timelines += b.timelines;
            a.evals += b.evals;
            a.nontrivial += b.nontrivial;
            a.ambiguous_skipped += b.ambiguous_skipped;
            a.outcomes.extend(b.outcomes);
        },
    )
}


/// Wide (2^j+1 keyframes) and tall (every subset of a 9-point grid) families, see common.rs. Every
/// keyframe position and every segment midpoint (wide) / every 1/32 (tall), in the forward pass, the
/// reverse pass and a repeated cycle, with and without a substituted start value.
fn wide_tall_pass(thorough: bool) -> (Acc, Vec<u32>) {
    let js: Vec<u32> = if thorough { (1..=17).collect() } else { vec![4, 8, 9, 16] };
    let timings = wide_timings();
    let init = P::sentinel();
    let vs = vstar();
    // work items: wide (j, pattern, timing) and tall (timing, chunk of 64 specs)
    let mut items: Vec<(u32, u8, usize, usize)> = vec![];
    for &j in &js {
        for pattern in 0..2u8 {
            for ti in 0..2 {
                items.push((j, pattern, ti, 0));
            }
        }
    }
    // stepped timelines (pattern 2): tied keyframes, inserted out of position order
    for j in if thorough { 1..=12u32 } else { 4..=8u32 } {
        for ti in 0..2 {
            items.push((j, 2, ti, 0));
        }
    }
    let talls: Vec<Vec<TlSpec>> = timings.iter().map(|t| tall_specs(*t)).collect();
    for ti in 0..2 {
        for c in 0..talls[ti].len().div_ceil(64) {
            items.push((0, 0, ti, c));
        }
    }
    let acc = par_fold(
        items.len(),
        Acc::default,
        |i, acc| {
            let (j, pattern, ti, chunk) = items[i];
            let th = &timings[ti];
            let mut one = |spec: &TlSpec, qs: &mut dyn Iterator<Item = f32>, rank: u64, acc: &mut Acc| {
                let rt = RefTl::new(spec);
                let tl = spec.build();
                let mut tls = tl.clone();
                tls.start_with(&vs);
                acc.timelines += 2;
                for q in qs {
                    for t in wide_times(th, q) {
                        let ph = ref_phase(th, t);
                        check_one(spec, &rt, &tl, None, t, &ph, &init, rank, acc);
                        check_one(spec, &rt, &tls, Some(&vs), t, &ph, &init, rank, acc);
                    }
                }
            };
            if j > 0 {
                let spec = if pattern == 2 { stepped_spec(j, *th) } else { wide_spec(j, pattern, *th) };
                one(&spec, &mut wide_positions(j), (2u64 << 60) | (j as u64) << 40 | (pattern as u64) << 8 | ti as u64, acc);
            } else {
                for (si, spec) in talls[ti].iter().enumerate().skip(chunk * 64).take(64) {
                    one(spec, &mut (0..=32).map(|i| i as f32 / 32.0), (3u64 << 60) | (spec.kfs.len() as u64) << 40 | (si as u64) << 8 | ti as u64, acc);
                }
            }
        },
        |a, b| {
            a.sink.merge(b.sink);
            a.timelines += b.timelines;
            a.evals += b.evals;
            a.nontrivial += b.nontrivial;
            a.ambiguous_skipped += b.ambiguous_skipped;
            a.outcomes.extend(b.outcomes);
        },
    );
    // micro family (sequential: a handful of cases)
    let mut acc = acc;
    // explicit-Linear family: keyframes that name Easing::Linear themselves while the timeline default is OutBack
    // (an explicit Linear is an easing like any other, not "unset"): T(<=2) with easing alphabet {none, Linear, x^2}
    for n in 0..=2usize {
        for idx in 0..count_t(n, 5) {
            let kfs = decode_t(n, &GRID5, idx, 0, 1, false).unwrap();
            let th = Timing::new(1.0, 0.25, Rep::Times(1), true);
            let spec = TlSpec { kfs, default_easing: 3, timing: th };
            let rt = RefTl::new(&spec);
            let tl = spec.build();
            acc.timelines += 1;
            for t in tau(&th, 16) {
                let ph = ref_phase(&th, t);
                check_one(&spec, &rt, &tl, None, t, &ph, &init, (6u64 << 60) | (n as u64) << 40 | idx, &mut acc);
            }
        }
    }
    // cluster family: keyframes on consecutive f32 values, inserted in four orders
    for variant in 0..4u8 {
        let (spec, ts) = cluster_spec(variant, Timing::new(1.0, 0.0, Rep::None, false));
        let rt = RefTl::new(&spec);
        let rank = (5u64 << 60) | variant as u64;
        match std::panic::catch_unwind(std::panic::AssertUnwindSafe(|| spec.build())) {
            Err(_) => acc.sink.add("panic-in-build", rank, || (format!("building the cluster timeline (insertion variant {variant}) panicked"), json!({"timeline": spec.to_json()}))),
            Ok(tl) => {
                let mut tls = tl.clone();
                tls.start_with(&vs);
                acc.timelines += 2;
                for &t in &ts {
                    let ph = ref_phase(&spec.timing, t);
                    check_one(&spec, &rt, &tl, None, t, &ph, &init, rank, &mut acc);
                    check_one(&spec, &rt, &tls, Some(&vs), t, &ph, &init, rank, &mut acc);
                }
            }
        }
    }
    for (ci, (spec, ts)) in micro_cases().iter().enumerate() {
        let rt = RefTl::new(spec);
        let tl = spec.build();
        acc.timelines += 1;
        for &t in ts {
            let ph = ref_phase(&spec.timing, t);
            check_one(spec, &rt, &tl, None, t, &ph, &init, (4u64 << 60) | ci as u64, &mut acc);
        }
    }
    (acc, js)
}

/// Integer-range family: one animated property of every primitive integer type, keyframed with values from the far
/// ends of the type's range (all exactly representable in f32, as is every interpolated value asked for), three
/// keyframes (0%, 50%, 100%), evaluated at the sixteenths of the cycle: the value strictly between two keyframes is
/// their linear interpolation - exact here, whatever the order of the float operations.
#[derive(Animate, Clone, Debug, Default, PartialEq)]
struct Ints {
    a: u64,
    b: usize,
    c: i64,
    d: u32,
    e: i32,
    f: u16,
    g: i16,
    h: u8,
    i: i8,
}

fn integer_range_family(acc: &mut Acc) {
    // (k0, k50, k100) per field, as i128
    let p = |e: u32| 1i128 << e;
    let rows: [[(i128, i128, i128); 9]; 3] = [
        [(p(63), p(63) + p(62), p(63) + p(61)), (p(63) + p(62), p(63), p(62)), (-p(63), 0, p(62)), (p(31), p(31) + p(30), p(30)), (-p(31), p(30), -p(30)), (0, 49152, 16384), (-32768, 16384, 0), (0, 192, 64), (-128, 64, 0)],
        [(0, p(63), p(62)), (p(62), p(63) + p(62), p(63)), (p(62), -p(62), -p(63)), (0, p(31), p(31) + p(30)), (p(30), -p(31), 0), (49152, 0, 32768), (16384, -32768, -16384), (128, 0, 192), (64, -128, 96)],
        [(p(63) + p(62), p(63) + p(62), p(63)), (p(63), p(63), 0), (-p(63), -p(63), -p(62)), (p(31) + p(30), p(31) + p(30), 0), (-p(31), -p(31), p(30)), (49152, 49152, 0), (-32768, -32768, 0), (192, 192, 0), (-128, -128, 0)],
    ];
    for (ri, r) in rows.iter().enumerate() {
        for (ci, &(cycle, delay, rep, reverse)) in [(1.0f32, 0.0f32, Repeat::None, false), (2.0, 0.5, Repeat::Times(1), true), (0.5, -0.25, Repeat::Infinite, false)].iter().enumerate() {
            let kf = |pos: f32, w: usize| {
                let v = |i: usize| [r[i].0, r[i].1, r[i].2][w];
                Ints::keyframe(pos).a(v(0) as u64).b(v(1) as usize).c(v(2) as i64).d(v(3) as u32).e(v(4) as i32).f(v(5) as u16).g(v(6) as i16).h(v(7) as u8).i(v(8) as i8)
            };
            let tl = Ints::timeline().duration_seconds(cycle).delay_seconds(delay).repeat(rep).reverse(reverse).keyframe(kf(0.0, 0)).keyframe(kf(0.5, 1)).keyframe(kf(1.0, 2)).build();
            acc.timelines += 1;
            for s in 0..=16u32 {
                // position s/16 of a forward pass (for the reversing timing: of the first half cycle)
                let q = s as f64 / 16.0;
                let t = delay + cycle * if reverse { q as f32 / 2.0 } else { q as f32 };
                if s == 16 && !reverse && rep == Repeat::Infinite {
                    continue;
                }
                let mut got = Ints::default();
                let ok = std::panic::catch_unwind(std::panic::AssertUnwindSafe(|| tl.update(&mut got, t))).is_ok();
                acc.evals += 1;
                acc.nontrivial += 9;
                let g: [i128; 9] = [got.a as i128, got.b as i128, got.c as i128, got.d as i128, got.e as i128, got.f as i128, got.g as i128, got.h as i128, got.i as i128];
                for (fi, name) in ["a: u64", "b: usize", "c: i64", "d: u32", "e: i32", "f: u16", "g: i16", "h: u8", "i: i8"].iter().enumerate() {
                    let (k0, k1, k2) = r[fi];
                    let want = if s <= 8 { k0 + (k1 - k0) * s as i128 / 8 } else { k1 + (k2 - k1) * (s as i128 - 8) / 8 };
                    if !ok || g[fi] != want {
                        acc.sink.add(&format!("integer-range:{}", name.split(": ").nth(1).unwrap()), (5u64 << 60) | (ri as u64) << 16 | (ci as u64) << 8 | s as u64, || {
                            (format!("property {name} with keyframes 0% {k0}, 50% {k1}, 100% {k2} (cycle {cycle} s, delay {delay} s, {rep:?}, reverse {reverse}) at t = {t} (position {s}/16): got {} , linear interpolation gives {want}", if ok { g[fi].to_string() } else { "a panic".into() }), json!({"family": "integer-range", "row": ri, "timing": ci, "field": name, "keyframes": [k0.to_string(), k1.to_string(), k2.to_string()], "t": t}))
                        });
                    }
                }
            }
        }
    }
}

/// Integer properties of every type under easings whose eased fraction leaves [0,1] (the Back family dips below 0
/// and overshoots 1): the value is still the linear interpolation at that fraction, i.e. it undershoots the segment's
/// start and overshoots its end, for unsigned types exactly as for signed ones. Keyframe values are far from the
/// ends of every type's range (100 <-> 200), the fraction is taken from the real Easing::calc (decided by C13).
fn back_easing_family(acc: &mut Acc) {
    for (ei, (name, easing, _)) in crate::c13::table().iter().enumerate() {
        if !name.contains("Back") {
            continue;
        }
        for (di, (v0, v1)) in [(100i128, 200i128), (200, 100)].into_iter().enumerate() {
            let kf = |pos: f32, v: i128| Ints::keyframe(pos).a(v as u64).b(v as usize).c(v as i64).d(v as u32).e(v as i32).f(v as u16).g(v as i16).h(v as u8).i((v - 100) as i8);
            let tl = Ints::timeline().duration_seconds(1.0).default_easing(easing.clone()).keyframe(kf(0.0, v0)).keyframe(kf(1.0, v1)).build();
            acc.timelines += 1;
            for j in 0..=64u32 {
                let x = j as f32 / 64.0;
                let f = mina::EasingFunction::calc(easing, x) as f64;
                let mut got = Ints::default();
                let ok = std::panic::catch_unwind(std::panic::AssertUnwindSafe(|| tl.update(&mut got, x))).is_ok();
                acc.evals += 1;
                let g: [i128; 9] = [got.a as i128, got.b as i128, got.c as i128, got.d as i128, got.e as i128, got.f as i128, got.g as i128, got.h as i128, got.i as i128 + 100];
                let real = v0 as f64 + (v1 - v0) as f64 * f;
                if !(0.0..=1.0).contains(&f) {
                    acc.nontrivial += 9;
                }
                for (fi, ty) in ["u64", "usize", "i64", "u32", "i32", "u16", "i16", "u8", "i8"].iter().enumerate() {
                    if !ok || (g[fi] as f64 - real).abs() > 0.5 + 1e-3 {
                        acc.sink.add(&format!("fraction-outside-unit-interval:{ty}"), (6u64 << 60) | (ei as u64) << 16 | (di as u64) << 8 | j as u64, || {
                            (format!("{ty} property {v0} -> {v1} under {name} at position {x}: eased fraction {f}, got {}, linear interpolation at that fraction {real}", if ok { g[fi].to_string() } else { "a panic".into() }), json!({"family": "integer-range", "easing": name, "type": ty, "x": x}))
                        });
                    }
                }
            }
        }
    }
}

pub fn run(run: Run) -> ! {
    let nmax = if run.is_thorough() { 5 } else { 3 };
    let thetas = theta();
    let grids: Vec<Vec<(f32, Phase)>> = thetas.iter().map(|th| tau(th, 32).into_iter().map(|t| (t, ref_phase(th, t))).collect()).collect();
    let init = P::sentinel();
    let vs = vstar();
    // work items: (n, default easing, chunk)
    const CHUNK: u64 = 512;
    let mut items: Vec<(usize, u8, u64)> = vec![];
    for n in 0..=nmax {
        let c = count_t(n, 5);
        for de in [0u8, 3u8] {
            let mut s = 0;
            while s < c {
                items.push((n, de, s));
                s += CHUNK;
            }
        }
    }
    let acc = par_fold(
        items.len(),
        Acc::default,
        |i, acc| {
            let (n, de, s0) = items[i];
            let c = count_t(n, 5);
            for idx2 in (s0 * 2)..((s0 + CHUNK).min(c) * 2) {
                let idx = idx2 / 2;
                let base = decode_t(n, &GRID5, idx, 1, 2, false).unwrap();
                // second variant: the f64 property d in place of the f32 property a
                let kfs = if idx2 % 2 == 1 {
                    if n == nmax || !base.iter().any(|k| k.a.is_some()) {
                        continue;
                    }
                    remap_a_to_d(&base)
                } else {
                    base
                };
                for (ti, th) in thetas.iter().enumerate() {
                    let spec = TlSpec { kfs: kfs.clone(), default_easing: de, timing: *th };
                    let rt = RefTl::new(&spec);
                    let tl = spec.build();
                    let mut tls = tl.clone();
                    tls.start_with(&vs);
                    acc.timelines += 2;
                    let skip_start = rt.a.dup_at_zero || rt.k.dup_at_zero || rt.d.dup_at_zero;
                    let rank = (n as u64) << 40 | idx << 8 | ti as u64;
                    for (t, ph) in &grids[ti] {
                        check_one(&spec, &rt, &tl, None, *t, ph, &init, rank, acc);
                        if !skip_start {
                            check_one(&spec, &rt, &tls, Some(&vs), *t, ph, &init, rank, acc);
                        }
                    }
                    if acc.samples.len() < 2 && n == nmax && idx % 7919 == 5 && ti == 3 {
                        let t = grids[ti][20].0;
                        let got = eval_real(&tls, t, &init);
                        let mut c = case_json(&spec, Some(&vs), t, &init);
                        c["got"] = got.to_json();
                        c["reference"] = json!(format!("{:?}", rt.eval(t, Some(&vs))));
                        acc.samples.push(c);
                    }
                }
            }
        },
        |a, b| {
            a.sink.merge(b.sink);
            a.timelines += b.timelines;
            a.evals += b.evals;
            a.nontrivial += b.nontrivial;
            a.ambiguous_skipped += b.ambiguous_skipped;
            a.outcomes.extend(b.outcomes);
            if a.samples.len() < 3 {
                a.samples.extend(b.samples);
            }
        },
    );
    let mut acc = acc;
    let nd = nondyadic_pass(if run.is_thorough() { 4 } else { 3 });
    let (nd_evals, nd_skipped) = (nd.evals, nd.ambiguous_skipped);
    acc.sink.merge(nd.sink);
    acc.timelines += nd.timelines;
    acc.evals += nd.evals;
    acc.nontrivial += nd.nontrivial;
    let (wt, wide_js) = wide_tall_pass(run.is_thorough());
    let wt_evals = wt.evals;
    acc.sink.merge(wt.sink);
    acc.timelines += wt.timelines;
    acc.evals += wt.evals;
    acc.nontrivial += wt.nontrivial;
    acc.ambiguous_skipped += wt.ambiguous_skipped;
    integer_range_family(&mut acc);
    back_easing_family(&mut acc);
    let mut cov = Map::new();
    cov.insert("wide_and_tall_family_evaluations".into(), json!(wt_evals));
    cov.insert("wide_family_keyframe_counts".into(), json!(wide_js.iter().map(|j| (1u64 << j) + 1).collect::<Vec<_>>()));
    cov.insert("non_dyadic_family_evaluations".into(), json!(nd_evals));
    cov.insert("non_dyadic_family_skipped_within_jitter_of_a_discontinuity".into(), json!(nd_skipped));
    cov.insert("states".into(), json!(acc.timelines));
    cov.insert("transitions".into(), json!(acc.evals));
    cov.insert("traces_validated_against_impl".into(), json!(acc.evals));
    cov.insert("evaluations".into(), json!(acc.evals));
    cov.insert("distinct_nontrivial".into(), json!(acc.nontrivial));
    cov.insert("rule".into(), json!(format!("every keyframe list of size 0..={nmax} over positions {{0,1/4,1/2,3/4,1}} (ascending insertion, repeated positions included) x per-keyframe property subset in {{none,a,k,a+k}} x per-keyframe easing in {{none,x^2,1-(1-x)^2}} x default easing in {{Linear,OutBack}} (and, below the largest size, the same lists with the f64 property d in place of a) x 6 timing configurations x {{no start_with, start_with(v*)}} x time grid tau (32 points per cycle, all phases, 1e6, f32::MAX); states = timelines built, transitions = Timeline::update calls, each compared with RefTimeScale.RefCss; plus a non-dyadic companion family (positions 0,0.1,0.3,0.7,1; cycles 0.3,3,0.7,7; delay 0.1; built-in easings Ease/InQuad/InOutCubic; 29 irrational-offset samples per cycle) under the same tolerance, skipping samples within the f32 jitter window of a discontinuity of the time map; plus a WIDE family (one timeline of 2^j+1 keyframes at i/2^j for the j listed under wide_family_keyframe_counts, two property patterns - dense a / sparse k,d and sparse a / dense k - evaluated at every keyframe position and every segment midpoint, forward, reverse and repeated pass) a STEPPED family (2^j holds, j = 4..8 quick / 1..12 thorough: every hold is two keyframes, neighbouring holds meet in two tied keyframes with different values, all end-of-hold keyframes inserted before all start-of-hold keyframes - the value inside every hold must be the hold's value) a MICRO family (two keyframes of one property closer than f32::EPSILON - 2^-24, 2^-30, 2..16 ulp apart at 1/8, 1/4, 3/8, 2^-10 - evaluated at the floats strictly between them) an EXPLICIT-LINEAR family (keyframe easing alphabet {{none, Linear, x^2}} under the default OutBack), a CLUSTER family (17 regular keyframes plus 8 on consecutive f32 values just above 1/2, inserted in four orders) and a TALL family (every subset of size >= 2 of the grid {{0,1/8,..,1}} as position list, two content patterns, every 1/32), both with and without start_with: index arithmetic beyond the small-scope bound; plus an INTEGER-RANGE family (a struct with one property of each of u64 usize i64 u32 i32 u16 i16 u8 i8, three keyframes with values from the far ends of each type's range - 2^63+2^62, -2^63, 2^31+2^30, 192, -128 ... - all exactly representable, three timings, every sixteenth of a pass: exact linear interpolation) and the same struct 100 <-> 200 under the Back easings, whose eased fraction leaves [0,1] (unsigned properties undershoot and overshoot like signed ones); a (case,property) is non-trivial when the position lies strictly between two defining keyframes with different values")));
    cov.insert("exhaustive".into(), json!(true));
    cov.insert("max_keyframes".into(), json!(nmax));
    cov.insert("ambiguous_positions_skipped".into(), json!(acc.ambiguous_skipped));
    cov.insert("distinct_observed_outcomes_capped_4096_per_worker".into(), json!(acc.outcomes.len()));
    cov.insert("samples".into(), json!(acc.samples));
    run.finish(
        acc.sink,
        cov,
        vec![
            "built-in easing OutBack is evaluated by the real Easing::calc inside the reference (decided by C13)".into(),
            "values outside the alphabets and keyframe counts above the bound are not covered".into(),
            "start_with cases skip timelines where one property has two keyframes at 0% (no defined meaning)".into(),
        ],
    )
}

pub fn replay(case: &Value) -> bool {
    if case["family"] == "integer-range" {
        let mut acc = Acc::default();
        integer_range_family(&mut acc);
        back_easing_family(&mut acc);
        for (s, v) in &acc.sink.map {
            println!("{s}: {}", v.desc);
        }
        return acc.sink.map.is_empty();
    }
    let (spec, start, t, init) = case_from_json(case);
    let rt = RefTl::new(&spec);
    let mut tl = spec.build();
    if let Some(s) = &start {
        tl.start_with(s);
    }
    let got = eval_real(&tl, t, &init);
    let want = rt.eval(t, start.as_ref());
    println!("got {:?}\nreference {:?}", got, want);
    compare(&got, &init, &want, &rt, start.as_ref()).map_err(|e| println!("{e}")).is_ok()
}
