//! C01 — CSS-style per-property interpolation. E1: T(n) x Theta x {no start, start} x tau.

use crate::common::*;
use mina::prelude::*;
use serde_json::{json, Map, Value};
use vlib::model::*;
use vlib::spec::*;
use vlib::util::*;

#[derive(Default)]
struct Acc {
    sink: VSink,
    timelines: u64,
    evals: u64,
    nontrivial: u64,
    ambiguous_skipped: u64,
    outcomes: std::collections::HashSet<u64>,
    samples: Vec<Value>,
}

fn check_one(spec: &TlSpec, rt: &RefTl, tl: &PTimeline, start: Option<&P>, t: f32, ph: &Phase, init: &P, rank: u64, acc: &mut Acc) {
    let got = eval_real(tl, t, init);
    let want = rt.eval_phase(ph, start);
    acc.evals += 1;
    let q = ph.pos();
    if rt.a.interpolating_at(q) {
        acc.nontrivial += 1;
    }
    if rt.k.interpolating_at(q) {
        acc.nontrivial += 1;
    }
    if rt.d.interpolating_at(q) {
        acc.nontrivial += 1;
    }
    if want.a == RV::Ambiguous || want.k == RV::Ambiguous {
        acc.ambiguous_skipped += 1;
    }
    if acc.outcomes.len() < 4096 {
        acc.outcomes.insert(got.bits()[0] ^ (got.bits()[1] << 32));
    }
    if let Err(msg) = compare(&got, init, &want, rt, start) {
        let sig = format!("value-mismatch:{}", msg.split(':').next().unwrap_or("?"));
        acc.sink.add(&sig, rank, || {
            (format!("t={t} {msg}"), {
                let mut c = case_json(spec, start, t, init);
                c["got"] = got.to_json();
                c["reference"] = json!(format!("{want:?}"));
                c
            })
        });
    }
}

pub fn run(run: Run) -> ! {
    let nmax = if run.is_thorough() { 5 } else { 3 };
    let thetas = theta();
    let grids: Vec<Vec<(f32, Phase)>> = thetas.iter().map(|th| tau(th, 32).into_iter().map(|t| (t, ref_phase(th, t))).collect()).collect();
    let init = P::sentinel();
    let vs = vstar();
    // work items: (n, default easing, chunk)
    const CHUNK: u64 = 512;
    let mut items: Vec<(usize, u8, u64)> = vec![];
    for n in 0..=nmax {
        let c = count_t(n, 5);
        for de in [0u8, 3u8] {
            let mut s = 0;
            while s < c {
                items.push((n, de, s));
                s += CHUNK;
            }
        }
    }
    let acc = par_fold(
        items.len(),
        Acc::default,
        |i, acc| {
            let (n, de, s0) = items[i];
            let c = count_t(n, 5);
            for idx2 in (s0 * 2)..((s0 + CHUNK).min(c) * 2) {
                let idx = idx2 / 2;
                let base = decode_t(n, &GRID5, idx, 1, 2, false).unwrap();
                // second variant: the f64 property d in place of the f32 property a
                let kfs = if idx2 % 2 == 1 {
                    if n == nmax || !base.iter().any(|k| k.a.is_some()) {
                        continue;
                    }
                    remap_a_to_d(&base)
                } else {
                    base
                };
                for (ti, th) in thetas.iter().enumerate() {
                    let spec = TlSpec { kfs: kfs.clone(), default_easing: de, timing: *th };
                    let rt = RefTl::new(&spec);
                    let tl = spec.build();
                    let mut tls = tl.clone();
                    tls.start_with(&vs);
                    acc.timelines += 2;
                    let skip_start = rt.a.dup_at_zero || rt.k.dup_at_zero || rt.d.dup_at_zero;
                    let rank = (n as u64) << 40 | idx << 8 | ti as u64;
                    for (t, ph) in &grids[ti] {
                        check_one(&spec, &rt, &tl, None, *t, ph, &init, rank, acc);
                        if !skip_start {
                            check_one(&spec, &rt, &tls, Some(&vs), *t, ph, &init, rank, acc);
                        }
                    }
                    if acc.samples.len() < 2 && n == nmax && idx % 7919 == 5 && ti == 3 {
                        let t = grids[ti][20].0;
                        let got = eval_real(&tls, t, &init);
                        let mut c = case_json(&spec, Some(&vs), t, &init);
                        c["got"] = got.to_json();
                        c["reference"] = json!(format!("{:?}", rt.eval(t, Some(&vs))));
                        acc.samples.push(c);
                    }
                }
            }
        },
        |a, b| {
            a.sink.merge(b.sink);
            a.timelines += b.timelines;
            a.evals += b.evals;
            a.nontrivial += b.nontrivial;
            a.ambiguous_skipped += b.ambiguous_skipped;
            a.outcomes.extend(b.outcomes);
            if a.samples.len() < 3 {
                a.samples.extend(b.samples);
            }
        },
    );
    let mut cov = Map::new();
    cov.insert("states".into(), json!(acc.timelines));
    cov.insert("transitions".into(), json!(acc.evals));
    cov.insert("traces_validated_against_impl".into(), json!(acc.evals));
    cov.insert("evaluations".into(), json!(acc.evals));
    cov.insert("distinct_nontrivial".into(), json!(acc.nontrivial));
    cov.insert("rule".into(), json!(format!("every keyframe list of size 0..={nmax} over positions {{0,1/4,1/2,3/4,1}} (ascending insertion, repeated positions included) x per-keyframe property subset in {{none,a,k,a+k}} x per-keyframe easing in {{none,x^2,1-(1-x)^2}} x default easing in {{Linear,OutBack}} (and, below the largest size, the same lists with the f64 property d in place of a) x 6 timing configurations x {{no start_with, start_with(v*)}} x time grid tau (32 points per cycle, all phases, 1e6, f32::MAX); states = timelines built, transitions = Timeline::update calls, each compared with RefTimeScale.RefCss; a (case,property) is non-trivial when the position lies strictly between two defining keyframes with different values")));
    cov.insert("exhaustive".into(), json!(true));
    cov.insert("max_keyframes".into(), json!(nmax));
    cov.insert("ambiguous_positions_skipped".into(), json!(acc.ambiguous_skipped));
    cov.insert("distinct_observed_outcomes_capped_4096_per_worker".into(), json!(acc.outcomes.len()));
    cov.insert("samples".into(), json!(acc.samples));
    run.finish(
        acc.sink,
        cov,
        vec![
            "built-in easing OutBack is evaluated by the real Easing::calc inside the reference (decided by C13)".into(),
            "values outside the alphabets and keyframe counts above the bound are not covered".into(),
            "start_with cases skip timelines where one property has two keyframes at 0% (no defined meaning)".into(),
        ],
    )
}

pub fn replay(case: &Value) -> bool {
    let (spec, start, t, init) = case_from_json(case);
    let rt = RefTl::new(&spec);
    let mut tl = spec.build();
    if let Some(s) = &start {
        tl.start_with(s);
    }
    let got = eval_real(&tl, t, &init);
    let want = rt.eval(t, start.as_ref());
    println!("got {:?}\nreference {:?}", got, want);
    compare(&got, &init, &want, &rt, start.as_ref()).map_err(|e| println!("{e}")).is_ok()
}
