//! C02 — keyframe / start / end values reached exactly and then held.

use crate::common::*;
use mina::prelude::*;
use serde_json::{json, Map, Value};
use vlib::model::*;
use vlib::spec::*;
use vlib::util::*;

#[derive(Default)]
struct Acc {
    sink: VSink,
    timelines: u64,
    evals: u64,
    exact_checks: u64,
    after_end_groups: u64,
    samples: Vec<Value>,
    outcomes: std::collections::HashSet<u64>,
}

/// Exact-hit times for a timing configuration: every keyframe grid position in every cycle
/// (forward and reverse pass), the delay region, each forward-pass end, and after-end times.
fn exact_times(t: &Timing) -> (Vec<f32>, Vec<f32>) {
    let mut v = vec![0.0, t.delay / 2.0, t.delay];
    let cycles = match t.rep {
        Rep::None => 1,
        Rep::Times(n) => (n + 1).min(4),
        Rep::Infinite => 4,
    };
    for c in 0..cycles {
        for &p in GRID5.iter() {
            if t.reverse {
                v.push(t.delay + t.cycle * (c as f32 + p / 2.0));
                v.push(t.delay + t.cycle * (c as f32 + 1.0 - p / 2.0));
            } else {
                v.push(t.delay + t.cycle * (c as f32 + p));
            }
        }
    }
    let mut after = vec![];
    if let Some(total) = t.total() {
        let total = total as f32;
        after = vec![next_up(total), total + 1.0 / 512.0, total + 1.0, total * 2.0 + 1.0, 1.0e6, f32::MAX];
        v.push(total);
    }
    v.sort_by(|a, b| a.total_cmp(b));
    v.dedup();
    (v, after)
}

fn check_eval(spec: &TlSpec, rt: &RefTl, tl: &PTimeline, start: Option<&P>, t: f32, init: &P, rank: u64, acc: &mut Acc) -> P {
    acc.evals += 1;
    let Some(got) = try_eval_real(tl, t, init) else {
        acc.sink.add("panic-in-update", rank, || (format!("t={t}: Timeline::update panicked"), case_json(spec, start, t, init)));
        return init.clone();
    };
    let ph = ref_phase(&rt.timing, t);
    let want = rt.eval_phase(&ph, start);
    let q = ph.pos();
    let mut res: Result<(), String> = Ok(());
    // exact where the position coincides with a (single) keyframe of the property, loose elsewhere
    let props: [(&str, &RefProp, f64, RV, bool); 3] =
        [("a", &rt.a, got.a as f64, want.a, false), ("k", &rt.k, got.k as f64, want.k, true), ("d", &rt.d, got.d, want.d, false)];
    for (name, rp, g, w, int) in props {
        if res.is_err() {
            break;
        }
        match w {
            RV::Val(wv) if rp.frames.partition_point(|f| f.0 <= q) - rp.frames.partition_point(|f| f.0 < q) == 1 => {
                acc.exact_checks += 1;
                res = compare_tight(name, g, wv, int, 4.0);
            }
            _ => {}
        }
    }
    if res.is_ok() {
        res = compare(&got, init, &want, rt, start);
    }
    if acc.outcomes.len() < 4096 {
        acc.outcomes.insert(got.bits()[0] ^ (got.bits()[1] << 32));
    }
    if let Err(msg) = res {
        let kind = match ph {
            Phase::NotStarted => "before-start",
            Phase::Active { .. } => "at-keyframe",
            Phase::Ended { .. } => "after-end",
        };
        let sig = format!("{kind}:{}", msg.split(':').next().unwrap_or("?"));
        acc.sink.add(&sig, rank, || {
            (format!("t={t} phase={ph:?} {msg}"), {
                let mut c = case_json(spec, start, t, init);
                c["got"] = got.to_json();
                c["reference"] = json!(format!("{want:?}"));
                c["unit_test"] = json!(timeline_unit_test(spec, start, t, init, &asserts_for(&want, rt, start)));
                c
            })
        });
    }
    got
}


/// Non-dyadic end-of-timeline companion: cycles and delays that are not exactly representable, finite
/// repeat counts; evaluated at exactly the reported total duration and at the f32 values around it. At or
/// after the total the terminal value must be shown (to float rounding: 1e-3 of the value range here,
/// while a wrap to the start of a cycle is off by the whole range); just before it the value must be
/// close to the end of the last cycle.
fn nondyadic_end(acc: &mut Acc) {
    for &cycle in &[0.1f32, 0.3, 0.7, 1.1, 0.15, 0.45, 2.3] {
        for &delay in &[0.0f32, 0.1, 0.7, 1.3] {
            for &n in &[1u32, 2, 3, 6, 9, 20] {
                for reverse in [false, true] {
                    let spec = TlSpec {
                        kfs: vec![Kf { pos: 0.0, a: Some(0.0), k: Some(0), d: None, easing: None }, Kf { pos: 1.0, a: Some(100.0), k: Some(1000), d: None, easing: None }],
                        default_easing: 0,
                        timing: Timing::new(cycle, delay, Rep::Times(n), reverse),
                    };
                    let tl = spec.build();
                    acc.timelines += 1;
                    let total = tl.duration();
                    let (ta, tk) = if reverse { (0.0f32, 0i32) } else { (100.0, 1000) };
                    let init = P::sentinel();
                    for k in 0..=8 {
                        let t = step_ulps(total, k);
                        let got = eval_real(&tl, t, &init);
                        acc.evals += 1;
                        acc.exact_checks += 1;
                        if (got.a - ta).abs() > 0.1 || (got.k - tk).abs() > 1 {
                            acc.sink.add("non-dyadic:not-terminal-at-or-after-total", (k as u64) << 32 | (n as u64), || {
                                (format!("cycle {cycle} delay {delay} Times({n}) reverse {reverse}: duration() = {total}, update(t = duration() + {k} ulp = {t}) gives a = {}, k = {} but the terminal values are {ta}, {tk}", got.a, got.k), case_json(&spec, None, t, &init))
                            });
                        }
                    }
                }
            }
        }
    }
}


/// Whole-second cycles that are not powers of two: every cycle length 1..=64 s (3, 41, 47, 55, ... - exactly
/// representable, and so is every multiple used here) x delays {0, 1/2, 3} x repeat {Infinite, Times(1), Times(3)}
/// x reverse, evaluated at exactly every cycle boundary delay + c*d (c = 1..=4) and every half cycle: the end of
/// EVERY forward pass shows the 100% value (no wrap to 0%), through the same exact oracle as the main space.
fn whole_second_cycles(acc: &mut Acc) {
    let init = P::sentinel();
    let vs = vstar();
    for d in 1..=64u32 {
        for &delay in &[0.0f32, 0.5, 3.0] {
            for rep in [Rep::Infinite, Rep::Times(1), Rep::Times(3)] {
                for reverse in [false, true] {
                    let spec = TlSpec {
                        kfs: vec![Kf { pos: 0.0, a: Some(0.0), k: Some(0), d: Some(0.0), easing: None }, Kf { pos: 1.0, a: Some(100.0), k: Some(1000), d: Some(-8.0), easing: None }],
                        default_easing: 0,
                        timing: Timing::new(d as f32, delay, rep, reverse),
                    };
                    let rt = RefTl::new(&spec);
                    let tl = spec.build();
                    let mut tls = tl.clone();
                    tls.start_with(&vs);
                    acc.timelines += 2;
                    let rank = (4u64 << 60) | (d as u64) << 16 | (delay.to_bits() as u64 >> 20) << 4 | (reverse as u64) << 1;
                    for half in 1..=8u32 {
                        let t = delay + (half * d) as f32 / 2.0;
                        check_eval(&spec, &rt, &tl, None, t, &init, rank, acc);
                        check_eval(&spec, &rt, &tls, Some(&vs), t, &init, rank, acc);
                    }
                }
            }
        }
    }
}

/// Extreme finite values: float properties whose neighbouring keyframe values lie at opposite far ends of the f32
/// range (their difference is not an f32), through the main oracle at every exact-hit and after-end time of
/// every timing configuration.
fn extreme_values(acc: &mut Acc) {
    let init = P::sentinel();
    let big = 2.0f64.powi(127);
    for (vi, kfs) in [
        vec![Kf { pos: 0.0, a: Some(-f32::MAX), k: Some(i32::MIN), d: Some(-big), easing: None }, Kf { pos: 0.5, a: Some(f32::MAX), k: Some(1 << 30), d: Some(big), easing: None }, Kf { pos: 1.0, a: Some(-f32::MAX), k: Some(i32::MIN), d: Some(-big), easing: None }],
        vec![Kf { pos: 0.0, a: Some(f32::MAX), k: None, d: Some(big), easing: Some(1) }, Kf { pos: 1.0, a: Some(-f32::MAX), k: None, d: Some(-big), easing: None }],
        vec![Kf { pos: 0.25, a: Some(3.0e38), k: None, d: None, easing: None }, Kf { pos: 0.75, a: Some(-3.0e38), k: None, d: None, easing: None }],
    ]
    .into_iter()
    .enumerate()
    {
        for (ti, th) in theta_plus().iter().enumerate() {
            let spec = TlSpec { kfs: kfs.clone(), default_easing: 0, timing: *th };
            let rt = RefTl::new(&spec);
            let tl = spec.build();
            acc.timelines += 1;
            let (hits, after) = exact_times(th);
            for &t in hits.iter().chain(after.iter()) {
                check_eval(&spec, &rt, &tl, None, t, &init, (5u64 << 60) | (vi as u64) << 8 | ti as u64, acc);
            }
        }
    }
}

/// Every built-in easing (the 31 variants of C13's table), as the timeline's default easing and as the easing of
/// the keyframes themselves: at the delay, at every keyframe position of both cycles, at the end of each forward
/// pass and after the end the keyframe values are produced exactly (an easing maps 0 to 0 and 1 to 1, so it cannot
/// move a value AT a keyframe).
fn builtin_easings_at_keyframes(acc: &mut Acc) {
    let init = P::sentinel();
    let vals: [(f32, i32, f64); 3] = [(8.0, 1000, -2.0), (1000.0, -2000, 64.0), (-8.0, 5000, 0.5)];
    for (ei, (name, _, _)) in crate::c13::table().iter().enumerate() {
        for on_keyframes in [false, true] {
            let e = || crate::c13::table()[ei].1.clone();
            let mut b = P::timeline().duration_seconds(1.0).delay_seconds(0.5).repeat(Repeat::Times(1));
            if !on_keyframes {
                b = b.default_easing(e());
            }
            for (i, pos) in [0.0f32, 0.5, 1.0].iter().enumerate() {
                let mut k = P::keyframe(*pos).a(vals[i].0).k(vals[i].1).d(vals[i].2);
                if on_keyframes {
                    k = k.easing(e());
                }
                b = b.keyframe(k);
            }
            let tl = b.build();
            acc.timelines += 1;
            // (time, index of the keyframe whose values must be shown)
            for (t, vi) in [(0.0f32, 0usize), (0.25, 0), (0.5, 0), (1.0, 1), (1.5, 2), (2.0, 1), (2.5, 2), (2.5000002, 2), (3.0, 2), (1.0e6, 2)] {
                let got = eval_real(&tl, t, &init);
                acc.evals += 1;
                acc.exact_checks += 3;
                let (wa, wk, wd) = vals[vi];
                let ok = (got.a - wa).abs() <= 4.0 * ulp32(wa) && got.k == wk && (got.d - wd).abs() <= 4.0 * ulp32(wd as f32) as f64;
                if !ok {
                    acc.sink.add(&format!("builtin-easing-moves-a-keyframe-value:{name}"), (6u64 << 60) | (ei as u64) << 8 | on_keyframes as u64, || {
                        (format!("easing {name} ({}), keyframes 0%/50%/100%, cycle 1 s after 0.5 s, Times(1): at t={t} got a={} k={} d={}, the keyframe there has a={wa} k={wk} d={wd}", if on_keyframes { "on each keyframe" } else { "as default easing" }, got.a, got.k, got.d), json!({"family": "builtin-easings-at-keyframes", "easing": name, "on_keyframes": on_keyframes, "t": t}))
                    });
                }
            }
        }
    }
}

/// Keyframe positions that are not dyadic (1%, 3%, 7%, 15%, 20%, 35%, 40%, ...) hit exactly: with a power-of-two
/// cycle and no delay the time p x cycle (forward) or p x cycle / 2 (forward pass of a reversing timeline) is exact
/// and maps to exactly p, so the value must be the keyframe's - exactly for the integer, within 4 ulp for the float.
fn nondyadic_positions_hit_exactly(acc: &mut Acc) {
    let init = P::sentinel();
    for (pi, &p) in [0.01f32, 0.03, 0.05, 0.07, 0.1, 0.12, 0.15, 0.2, 0.22, 0.3, 0.35, 0.4, 0.45, 0.6, 0.7, 0.9].iter().enumerate() {
        for &cycle in &[0.25f32, 0.5, 1.0, 2.0, 4.0, 64.0] {
            for reverse in [false, true] {
                for rep in [Repeat::None, Repeat::Times(2), Repeat::Infinite] {
                    for (vi, &(a1, k1)) in [(1000.0f32, 1i32 << 30), (-0.375, -(1 << 30))].iter().enumerate() {
                        let tl = P::timeline().duration_seconds(cycle).repeat(rep).reverse(reverse).keyframe(P::keyframe(0.0).a(0.0).k(0)).keyframe(P::keyframe(p).a(a1).k(k1)).keyframe(P::keyframe(1.0).a(8.0).k(7)).build();
                        acc.timelines += 1;
                        let t = if reverse { p * cycle / 2.0 } else { p * cycle };
                        let got = eval_real(&tl, t, &init);
                        acc.evals += 1;
                        acc.exact_checks += 2;
                        if got.k != k1 || (got.a - a1).abs() > 4.0 * ulp32(a1) {
                            acc.sink.add("non-dyadic-position:keyframe-value-not-reached", (7u64 << 60) | (pi as u64) << 16 | (reverse as u64) << 8 | vi as u64, || {
                                (format!("keyframe at {p} (a = {a1}, k = {k1}) in a {cycle} s timeline, {rep:?}, reverse {reverse}: at t = {t}, which maps to exactly that position, got a = {} k = {}", got.a, got.k), json!({"family": "non-dyadic-positions", "position": p, "cycle": cycle, "reverse": reverse, "repeat": format!("{rep:?}"), "t": t}))
                            });
                        }
                    }
                }
            }
        }
    }
}

/// glam vector properties (every lane holds a different value): at the delay, at every keyframe and after the end the
/// keyframe's vector is produced lane for lane.
#[derive(Animate, Clone, Debug, Default, PartialEq)]
struct Lanes {
    v2: glam::Vec2,
    v3: glam::Vec3,
    v4: glam::Vec4,
    d4: glam::DVec4,
    i4: glam::IVec4,
    u4: glam::UVec4,
    i3: glam::IVec3,
}

fn glam_lanes_at_keyframes(acc: &mut Acc) {
    let mk = |b: f32| Lanes {
        v2: glam::Vec2::new(b + 1.0, b + 2.0),
        v3: glam::Vec3::new(b + 1.0, b + 2.0, b + 3.0),
        v4: glam::Vec4::new(b + 1.0, b + 2.0, b + 3.0, b + 4.0),
        d4: glam::DVec4::new(b as f64 + 1.5, b as f64 + 2.5, b as f64 + 3.5, b as f64 + 4.5),
        i4: glam::IVec4::new(b as i32 + 1, b as i32 + 2, b as i32 + 3, b as i32 + 4),
        u4: glam::UVec4::new(b as u32 + 1, b as u32 + 2, b as u32 + 3, b as u32 + 4),
        i3: glam::IVec3::new(-(b as i32) - 1, -(b as i32) - 2, -(b as i32) - 3),
    };
    let frames = [mk(0.0), mk(100.0), mk(40.0)];
    for (ti, &(delay, rep, reverse)) in [(0.0f32, Repeat::None, false), (0.5, Repeat::Times(1), false), (0.5, Repeat::None, true), (0.0, Repeat::Infinite, true)].iter().enumerate() {
        let mut b = Lanes::timeline().duration_seconds(2.0).delay_seconds(delay).repeat(rep).reverse(reverse);
        for (i, pos) in [0.0f32, 0.5, 1.0].iter().enumerate() {
            let f = &frames[i];
            b = b.keyframe(Lanes::keyframe(*pos).v2(f.v2).v3(f.v3).v4(f.v4).d4(f.d4).i4(f.i4).u4(f.u4).i3(f.i3));
        }
        let tl = b.build();
        acc.timelines += 1;
        // (time, keyframe index): forward 0 / 1 / 2 s into the cycle, reversing 0 / 0.5 / 1 s (and back)
        let pts: Vec<(f32, usize)> = if reverse { vec![(0.0, 0), (delay, 0), (delay + 0.5, 1), (delay + 1.0, 2), (delay + 1.5, 1), (delay + 2.0, 0)] } else { vec![(0.0, 0), (delay, 0), (delay + 1.0, 1), (delay + 2.0, 2)] };
        for (t, fi) in pts {
            let mut got = Lanes::default();
            tl.update(&mut got, t);
            acc.evals += 1;
            acc.exact_checks += 7;
            if got != frames[fi] {
                acc.sink.add("glam-lanes:keyframe-value-not-reached", (8u64 << 60) | (ti as u64) << 8 | fi as u64, || {
                    (format!("delay {delay} s, {rep:?}, reverse {reverse}, cycle 2 s: at t = {t} got {:?}, the keyframe there is {:?}", got, frames[fi]), json!({"family": "glam-lanes", "timing": ti, "t": t}))
                });
            }
        }
    }
}

/// Wide (2^j+1 keyframes) and tall (all subsets of a 9-point grid) families of common.rs, evaluated at
/// exactly every keyframe position (forward, reverse and repeated pass).
fn wide_tall_pass(thorough: bool) -> Acc {
    let js: Vec<u32> = if thorough { (1..=17).collect() } else { vec![4, 8, 16] };
    let timings = wide_timings();
    let init = P::sentinel();
    let vs = vstar();
    let mut items: Vec<(u32, u8, usize)> = vec![];
    for &j in &js {
        for pattern in 0..2u8 {
            for ti in 0..2 {
                items.push((j, pattern, ti));
            }
        }
    }
    items.push((0, 0, 0));
    items.push((0, 0, 1));
    par_fold(
        items.len(),
        Acc::default,
        |i, acc| {
            let (j, pattern, ti) = items[i];
            let th = &timings[ti];
            let one = |spec: &TlSpec, denom: u32, rank: u64, acc: &mut Acc| {
                let rt = RefTl::new(spec);
                let tl = spec.build();
                let mut tls = tl.clone();
                tls.start_with(&vs);
                acc.timelines += 2;
                for i in 0..=denom {
                    for t in wide_times(th, i as f32 / denom as f32) {
                        check_eval(spec, &rt, &tl, None, t, &init, rank, acc);
                        check_eval(spec, &rt, &tls, Some(&vs), t, &init, rank, acc);
                    }
                }
            };
            if j > 0 {
                one(&wide_spec(j, pattern, *th), 1 << j, (2u64 << 60) | (j as u64) << 40 | (pattern as u64) << 8 | ti as u64, acc);
            } else {
                for (si, spec) in tall_specs(*th).iter().enumerate() {
                    one(spec, 8, (3u64 << 60) | (spec.kfs.len() as u64) << 40 | (si as u64) << 8 | ti as u64, acc);
                }
            }
        },
        |a, b| {
            a.sink.merge(b.sink);
            a.timelines += b.timelines;
            a.evals += b.evals;
            a.exact_checks += b.exact_checks;
            a.outcomes.extend(b.outcomes);
        },
    )
}

pub fn run(run: Run) -> ! {
    let nmax = if run.is_thorough() { 5 } else { 4 };
    let thetas = theta_plus();
    let grids: Vec<(Vec<f32>, Vec<f32>)> = thetas.iter().map(exact_times).collect();
    let init = P::sentinel();
    let vs = vstar();
    let acc = for_each_kfs(
        nmax,
        &GRID5,
        &[0u8, 3u8],
        true,
        Acc::default,
        |acc, n, idx, de, kfs0, rank| {
          for variant in 0..2 {
            if variant == 1 && (n == nmax || !kfs0.iter().any(|k| k.a.is_some())) {
                continue;
            }
            let kfs = &if variant == 1 { remap_a_to_d(kfs0) } else { kfs0.clone() };
            for (ti, th) in thetas.iter().enumerate() {
                let spec = TlSpec { kfs: kfs.clone(), default_easing: de, timing: *th };
                let rt = RefTl::new(&spec);
                let tl = spec.build();
                let mut tls = tl.clone();
                tls.start_with(&vs);
                acc.timelines += 2;
                let rank = rank | ti as u64;
                for (tlx, st) in [(&tl, None), (&tls, Some(&vs))] {
                    // the same timeline wrapped in a MergedTimeline must behave identically
                    let wrapped: MergedTimeline<PTimeline> = MergedTimeline::from(tlx.clone());
                    for &t in grids[ti].0.iter().chain(grids[ti].1.iter()) {
                        let mut w = init.clone();
                        wrapped.update(&mut w, t);
                        let g = eval_real(tlx, t, &init);
                        acc.evals += 1;
                        if w.bits() != g.bits() {
                            acc.sink.add("wrapped-in-merged-timeline-differs", rank, || (format!("t={t}: MergedTimeline::from(timeline) gives {:?}, the timeline itself {:?}", w, g), case_json(&spec, st, t, &init)));
                        }
                    }
                    for &t in &grids[ti].0 {
                        check_eval(&spec, &rt, tlx, st, t, &init, rank, acc);
                    }
                    // after the end: terminal value, identical at all after-end times
                    let mut first: Option<P> = None;
                    for &t in &grids[ti].1 {
                        let got = check_eval(&spec, &rt, tlx, st, t, &init, rank, acc);
                        match &first {
                            None => first = Some(got),
                            Some(f) => {
                                if f.bits() != got.bits() {
                                    acc.sink.add("after-end:not-constant", rank, || {
                                        (format!("values differ between after-end times: {:?} vs {:?} at t={t}", f, got), case_json(&spec, st, t, &init))
                                    });
                                }
                            }
                        }
                    }
                    if first.is_some() {
                        acc.after_end_groups += 1;
                    }
                }
                if acc.samples.len() < 2 && n == nmax && idx % 4099 == 7 && ti == 2 {
                    let t = grids[ti].0[6];
                    let mut c = case_json(&spec, None, t, &init);
                    c["got"] = eval_real(&tl, t, &init).to_json();
                    c["reference"] = json!(format!("{:?}", rt.eval(t, None)));
                    acc.samples.push(c);
                }
            }
          }
        },
        |a, b| {
            a.sink.merge(b.sink);
            a.timelines += b.timelines;
            a.evals += b.evals;
            a.exact_checks += b.exact_checks;
            a.after_end_groups += b.after_end_groups;
            a.outcomes.extend(b.outcomes);
            if a.samples.len() < 3 {
                a.samples.extend(b.samples);
            }
        },
    );
    let mut acc = acc;
    nondyadic_end(&mut acc);
    whole_second_cycles(&mut acc);
    extreme_values(&mut acc);
    builtin_easings_at_keyframes(&mut acc);
    nondyadic_positions_hit_exactly(&mut acc);
    glam_lanes_at_keyframes(&mut acc);
    let wt = wide_tall_pass(run.is_thorough());
    let wt_evals = wt.evals;
    acc.sink.merge(wt.sink);
    acc.timelines += wt.timelines;
    acc.evals += wt.evals;
    acc.exact_checks += wt.exact_checks;
    let mut cov = Map::new();
    cov.insert("wide_and_tall_family_evaluations".into(), json!(wt_evals));
    cov.insert("states".into(), json!(acc.timelines));
    cov.insert("transitions".into(), json!(acc.evals));
    cov.insert("traces_validated_against_impl".into(), json!(acc.evals));
    cov.insert("evaluations".into(), json!(acc.evals));
    cov.insert("distinct_nontrivial".into(), json!(acc.exact_checks));
    cov.insert("rule".into(), json!(format!("keyframe lists of size 0..={nmax} with per-property distinct positions (same alphabet as C01, incl. the variant with the f64 property d in place of a below the largest size) x 13 dyadic timing configurations (incl. Times 0/1/2/3, Infinite, reverse) x {{no start, start_with(v*)}} x exact-hit times delay+cycle*(c+p) / reversing delay+cycle*(c+p/2), delay+cycle*(c+1-p/2) for all grid positions p and cycles c<=3, t in {{0,delay/2,delay}}, every forward-pass end, and 6 after-end times (next f32 after total .. f32::MAX); every timeline is additionally evaluated wrapped in MergedTimeline::from (bit-equal); a non-dyadic companion evaluates 336 repeating timelines (cycles 0.1..2.3, delays 0..1.3, Times 1..20, reverse) at exactly the reported duration() and the 8 f32 values after it: the terminal value must be shown; a whole-second companion (every cycle length 1..=64 s x delays 0, 1/2, 3 x Infinite/Times(1)/Times(3) x reverse, at exactly every cycle boundary and half cycle of the first four cycles, same exact oracle: the end of every forward pass shows 100%); an extreme-values companion (neighbouring keyframe values -f32::MAX / f32::MAX, -2^127 / 2^127 for f64, i32::MIN / 2^30, under all 13 timings at every exact-hit and after-end time); every built-in easing as default easing and as keyframe easing, evaluated at the delay, at every keyframe position of two cycles and after the end; keyframes at 16 non-dyadic positions (1% .. 90%) hit at the exactly representable time p x cycle (forward) / p x cycle / 2 (reversing) for power-of-two cycles; glam vector properties (Vec2/3/4, DVec4, IVec3/4, UVec4, a different value in every lane) at their keyframes; plus the WIDE family (2^j+1 keyframes at i/2^j, j in {{4,8,16}} quick / 1..=17 thorough, two property patterns) and the TALL family (every subset of size >= 2 of {{0,1/8,..,1}}) evaluated at exactly every keyframe position in the forward, reverse and repeated pass, with and without start_with; non-trivial = (evaluation, property) whose position coincides with exactly one keyframe of that property, compared exactly (int) / within 4 ulp (float)")));
    cov.insert("exhaustive".into(), json!(true));
    cov.insert("max_keyframes".into(), json!(nmax));
    cov.insert("after_end_constancy_groups".into(), json!(acc.after_end_groups));
    cov.insert("distinct_observed_outcomes_capped".into(), json!(acc.outcomes.len()));
    cov.insert("samples".into(), json!(acc.samples));
    run.finish(acc.sink, cov, vec!["dyadic alphabets make every hit time and position exact in f32".into(), "Easing::calc(0)==0 and calc(1)==1 exactly (C13)".into()])
}

pub fn replay(case: &Value) -> bool {
    if case["family"] == "builtin-easings-at-keyframes" || case["family"] == "non-dyadic-positions" || case["family"] == "glam-lanes" {
        let mut acc = Acc::default();
        builtin_easings_at_keyframes(&mut acc);
        nondyadic_positions_hit_exactly(&mut acc);
        glam_lanes_at_keyframes(&mut acc);
        for (s, v) in &acc.sink.map {
            println!("{s}: {}", v.desc);
        }
        return acc.sink.map.is_empty();
    }
    let (spec, start, t, init) = case_from_json(case);
    let rt = RefTl::new(&spec);
    let mut tl = spec.build();
    if let Some(s) = &start {
        tl.start_with(s);
    }
    let mut acc = Acc::default();
    let got = check_eval(&spec, &rt, &tl, start.as_ref(), t, &init, 0, &mut acc);
    println!("got {:?}\nreference {:?}", got, rt.eval(t, start.as_ref()));
    for (s, v) in &acc.sink.map {
        println!("{s}: {}", v.desc);
    }
    acc.sink.map.is_empty()
}
