//! C09 — a timeline is a pure, repeatable function of time. Explicit-state exploration of the
//! timeline object API: all operation sequences up to depth D over two objects (a timeline and a
//! clone slot), oracle = memo table filled from pristine twins.

use crate::common::*;
use mina::prelude::*;
use serde_json::{json, Map, Value};
use vlib::spec::*;
use vlib::util::*;

#[derive(Clone, Copy, Debug, PartialEq)]
enum Op {
    Update { obj: u8, kind: u8, ti: u8 },
    Start { obj: u8, vi: u8 },
    CloneXY,
    CloneYX,
}

fn alphabet(nt: u8) -> Vec<Op> {
    let mut v = vec![];
    for obj in 0..2 {
        for ti in 0..nt {
            for kind in 0..3 {
                v.push(Op::Update { obj, kind, ti });
            }
        }
        for vi in 0..3 {
            v.push(Op::Start { obj, vi });
        }
    }
    v.push(Op::CloneXY);
    v.push(Op::CloneYX);
    v
}

fn starts() -> [P; 3] {
    [vstar(), P::default(), P { a: -3.25, k: 19, d: 1.5, u: 1.0, z: 2.0 }]
}

fn dirty() -> P {
    P { a: 31.0, k: -9, d: 0.75, u: 4.0, z: 5.0 }
}

fn times(t: &Timing) -> Vec<f32> {
    let total_or = |x: f32| t.total().map(|tt| tt as f32 + 1.0).unwrap_or(x);
    vec![t.delay / 2.0, t.delay + 0.3125 * t.cycle, t.delay + 0.8125 * t.cycle, t.delay + 1.3125 * t.cycle, total_or(t.delay + 2.6875 * t.cycle)]
}

#[derive(Clone)]
struct St {
    objs: [PTimeline; 2],
    start: [Option<u8>; 2],
    prev: P,
}

#[derive(Default)]
struct Acc {
    sink: VSink,
    nodes: u64,
    updates: u64,
    sequences: u64,
    distinct_results: std::collections::HashSet<[u64; 5]>,
    samples: Vec<Value>,
}

struct Ctx<'a> {
    spec: &'a TlSpec,
    ops: &'a [Op],
    times: &'a [f32],
    /// memo[start id (0 = none, 1..=3)][time] = result into the sentinel target from a pristine twin
    memo: Vec<Vec<P>>,
    def: (bool, bool),
    meta: (u32, u32, u32, Repeat),
    depth: usize,
    rank0: u64,
}

fn meta(tl: &PTimeline) -> (u32, u32, u32, Repeat) {
    (tl.delay().to_bits(), tl.duration().to_bits(), tl.cycle_duration().map(|c| c.to_bits()).unwrap_or(u32::MAX), tl.repeat())
}

fn opname(op: &Op, c: &Ctx) -> String {
    match *op {
        Op::Update { obj, kind, ti } => format!("{}.update({}, t={})", ["X", "Y"][obj as usize], ["fresh", "dirty", "previous-result"][kind as usize], c.times[ti as usize]),
        Op::Start { obj, vi } => format!("{}.start_with(v{})", ["X", "Y"][obj as usize], vi),
        Op::CloneXY => "Y = X.clone()".into(),
        Op::CloneYX => "X = Y.clone()".into(),
    }
}

fn dfs(c: &Ctx, st: &St, hist: &mut Vec<Op>, acc: &mut Acc) {
    if hist.len() == c.depth {
        acc.sequences += 1;
        return;
    }
    for op in c.ops {
        let mut s = st.clone();
        hist.push(*op);
        acc.nodes += 1;
        match *op {
            Op::Update { obj, kind, ti } => {
                let input = match kind {
                    0 => P::sentinel(),
                    1 => dirty(),
                    _ => s.prev.clone(),
                };
                let mut got = input.clone();
                s.objs[obj as usize].update(&mut got, c.times[ti as usize]);
                acc.updates += 1;
                let m = &c.memo[s.start[obj as usize].map(|v| v as usize + 1).unwrap_or(0)][ti as usize];
                let mut want = input.clone();
                if c.def.0 {
                    want.a = m.a;
                }
                if c.def.1 {
                    want.k = m.k;
                }
                if acc.distinct_results.len() < 2048 {
                    acc.distinct_results.insert(got.bits());
                }
                if got.bits() != want.bits() {
                    let rank = c.rank0 | hist.len() as u64;
                    acc.sink.add("update-result-depends-on-history", rank, || {
                        (
                            format!("after {:?}: got {:?}, pristine twin gives {:?}", hist.iter().map(|o| opname(o, c)).collect::<Vec<_>>(), got, want),
                            json!({"timeline": c.spec.to_json(), "history": hist.iter().map(|o| opname(o, c)).collect::<Vec<_>>()}),
                        )
                    });
                }
                s.prev = got;
            }
            Op::Start { obj, vi } => {
                s.objs[obj as usize].start_with(&starts()[vi as usize]);
                s.start[obj as usize] = Some(vi);
            }
            Op::CloneXY => {
                s.objs[1] = s.objs[0].clone();
                s.start[1] = s.start[0];
            }
            Op::CloneYX => {
                s.objs[0] = s.objs[1].clone();
                s.start[0] = s.start[1];
            }
        }
        for o in 0..2 {
            if meta(&s.objs[o]) != c.meta {
                acc.sink.add("metadata-changed", c.rank0 | hist.len() as u64, || {
                    (format!("metadata changed after {:?}", hist.iter().map(|o| opname(o, c)).collect::<Vec<_>>()), json!({"timeline": c.spec.to_json(), "history": hist.iter().map(|o| opname(o, c)).collect::<Vec<_>>()}))
                });
            }
        }
        dfs(c, &s, hist, acc);
        hist.pop();
    }
}

pub fn run(run: Run) -> ! {
    let (depth, nspecs) = if run.is_thorough() { (5usize, 24usize) } else { (4usize, 10usize) };
    let thetas = theta();
    // a fixed, structurally varied selection of keyframe lists from T(2) and T(3)
    let mut kfss: Vec<Vec<Kf>> = vec![];
    let c3 = count_t(3, 5);
    let c2 = count_t(2, 5);
    let mut i = 0u64;
    while kfss.len() < nspecs {
        let (n, c) = if i % 3 == 2 { (2usize, c2) } else { (3usize, c3) };
        let idx = (i * 7919 + 1234 * (i % 5)) % c;
        if let Some(k) = decode_t(n, &GRID5, idx, 1, 3, false) {
            if k.iter().any(|x| x.a.is_some() || x.k.is_some()) {
                kfss.push(k);
            }
        }
        i += 1;
    }
    // work items: (spec, theta, first op) to spread over cores
    let ops = alphabet(5);
    let mut items = vec![];
    for si in 0..kfss.len() {
        for ti in 0..thetas.len() {
            for fo in 0..ops.len() {
                items.push((si, ti, fo));
            }
        }
    }
    let acc = par_fold(
        items.len(),
        Acc::default,
        |ii, acc| {
            let (si, ti, fo) = items[ii];
            let spec = TlSpec { kfs: kfss[si].clone(), default_easing: if si % 2 == 0 { 0 } else { 3 }, timing: thetas[ti] };
            let tms = times(&spec.timing);
            let base = spec.build();
            let mut memo = vec![];
            for sid in 0..4 {
                let mut tl = spec.build();
                if sid > 0 {
                    tl.start_with(&starts()[sid - 1]);
                }
                memo.push(tms.iter().map(|&t| eval_real(&tl, t, &P::sentinel())).collect::<Vec<_>>());
            }
            let ctx = Ctx {
                spec: &spec,
                ops: &ops,
                times: &tms,
                memo,
                def: (spec.kfs.iter().any(|k| k.a.is_some()), spec.kfs.iter().any(|k| k.k.is_some())),
                meta: (spec.timing.delay.to_bits(), base.duration().to_bits(), spec.timing.cycle.to_bits(), spec.timing.rep.real()),
                depth,
                rank0: (si as u64) << 40 | (ti as u64) << 32 | (fo as u64) << 8,
            };
            // the first operation is fixed by the work item; the rest is explored exhaustively
            let st = St { objs: [base.clone(), base.clone()], start: [None, None], prev: P::sentinel() };
            let sub = Ctx { ops: &ops[fo..fo + 1], depth: 1, ..Ctx { memo: ctx.memo.clone(), ..ctx } };
            // apply first op via a depth-1 dfs on a copy to reuse the checking code, then continue
            let mut hist = vec![];
            let mut first_state = st.clone();
            {
                // replicate op application (without recursion) by running dfs with depth 1 for checks
                let mut a2 = Acc::default();
                dfs(&sub, &st, &mut hist, &mut a2);
                acc.sink.merge(a2.sink);
                acc.nodes += a2.nodes;
                acc.updates += a2.updates;
                // now actually apply to obtain the successor state
                match ops[fo] {
                    Op::Update { obj, kind, ti } => {
                        let mut got = match kind {
                            0 => P::sentinel(),
                            1 => dirty(),
                            _ => first_state.prev.clone(),
                        };
                        first_state.objs[obj as usize].update(&mut got, tms[ti as usize]);
                        first_state.prev = got;
                    }
                    Op::Start { obj, vi } => {
                        first_state.objs[obj as usize].start_with(&starts()[vi as usize]);
                        first_state.start[obj as usize] = Some(vi);
                    }
                    Op::CloneXY => {
                        first_state.objs[1] = first_state.objs[0].clone();
                        first_state.start[1] = first_state.start[0];
                    }
                    Op::CloneYX => {
                        first_state.objs[0] = first_state.objs[1].clone();
                        first_state.start[0] = first_state.start[1];
                    }
                }
            }
            let ctx2 = Ctx { ops: &ops, depth, ..sub };
            let mut hist = vec![ops[fo]];
            dfs(&ctx2, &first_state, &mut hist, acc);
            if acc.samples.len() < 2 && si == 1 && ti == 3 && fo == 7 {
                acc.samples.push(json!({"timeline": spec.to_json(), "first_op": opname(&ops[fo], &ctx2), "alphabet": ops.iter().map(|o| opname(o, &ctx2)).collect::<Vec<_>>(), "depth": depth}));
            }
        },
        |a, b| {
            a.sink.merge(b.sink);
            a.nodes += b.nodes;
            a.updates += b.updates;
            a.sequences += b.sequences;
            a.distinct_results.extend(b.distinct_results);
            if a.samples.len() < 2 {
                a.samples.extend(b.samples);
            }
        },
    );
    let mut cov = Map::new();
    cov.insert("states".into(), json!(acc.nodes));
    cov.insert("transitions".into(), json!(acc.nodes));
    cov.insert("traces_validated_against_impl".into(), json!(acc.sequences));
    cov.insert("evaluations".into(), json!(acc.updates));
    cov.insert("distinct_nontrivial".into(), json!(acc.sequences));
    cov.insert("rule".into(), json!(format!("{} timelines (from T(2),T(3)) x 6 timings; objects X and Y (clone slot); alphabet of {} operations: update(obj, target in {{fresh sentinel, dirty, previous result}}, 5 times spanning before-start/first pass/second pass-or-after-end/far), start_with(obj, 3 values), Y=X.clone(), X=Y.clone(); ALL sequences of length {} (stateless DFS, state = history); oracle: every update equals the memo entry (latest start value of that object, time) computed on a pristine twin into a fresh target, untouched fields keep the input's bits; delay/cycle/duration/repeat never change; non-trivial = complete sequences", kfss.len(), ops.len(), depth)));
    cov.insert("exhaustive".into(), json!(true));
    cov.insert("depth".into(), json!(depth));
    cov.insert("distinct_update_results_capped".into(), json!(acc.distinct_results.len()));
    cov.insert("samples".into(), json!(acc.samples));
    run.finish(acc.sink, cov, vec!["relational oracle (pristine twin of the same build); the twin itself is bound to the reference by C01/C10".into()])
}

pub fn replay(case: &Value) -> bool {
    println!("C09 replay: re-run the listed history by hand:\n{}", serde_json::to_string_pretty(case).unwrap());
    // Histories are textual; re-running the whole (small) exploration reproduces them.
    false
}
