//! C09 — a timeline is a pure, repeatable function of time. Explicit-state exploration of the
//! timeline object API: all operation sequences up to depth D over two objects (a timeline and a
//! clone slot), oracle = memo table filled from pristine twins. Objects are derive-built timelines
//! and merged timelines (components with different delays).

use crate::common::*;
use mina::prelude::*;
use serde_json::{json, Map, Value};
use vlib::spec::*;
use vlib::util::*;

#[derive(Clone, Copy, Debug, PartialEq)]
enum Op {
    Update { obj: u8, kind: u8, ti: u8 },
    Start { obj: u8, vi: u8 },
    CloneXY,
    CloneYX,
    /// `Y.clone_from(&X)` / `X.clone_from(&Y)`: assignment of a clone through the other Clone method
    CloneFromXY,
    CloneFromYX,
}

fn alphabet(nt: u8) -> Vec<Op> {
    let mut v = vec![];
    for obj in 0..2 {
        for ti in 0..nt {
            for kind in 0..3 {
                v.push(Op::Update { obj, kind, ti });
            }
        }
        for vi in 0..3 {
            v.push(Op::Start { obj, vi });
        }
    }
    v.push(Op::CloneXY);
    v.push(Op::CloneYX);
    v.push(Op::CloneFromXY);
    v.push(Op::CloneFromYX);
    v
}

fn starts() -> [P; 3] {
    [vstar(), P::default(), P { a: -3.25, k: 19, d: 1.5, u: 1.0, z: 2.0 }]
}

fn dirty() -> P {
    P { a: 31.0, k: -9, d: 0.75, u: 4.0, z: 5.0 }
}

fn times_for(ts: &[Timing]) -> Vec<f32> {
    let dmin = ts.iter().map(|t| t.delay).fold(f32::INFINITY, f32::min);
    let dmax = ts.iter().map(|t| t.delay).fold(0.0, f32::max);
    let t = ts[0];
    let far = ts.iter().filter_map(|t| t.total()).fold(0.0f64, f64::max) as f32 + 1.0;
    // the last-but-one time lands exactly on the 50% keyframe position of the first pass
    // the first time lies before the start; with no delay it is negative zero (a valid time equal to 0)
    // the second time is EXACTLY the end of the first cycle (the hold-at-100% instant): queried after a time
    // inside the second cycle it must still show the held end value
    vec![if dmin == 0.0 { -0.0 } else { dmin / 2.0 }, t.delay + t.cycle, if dmax > dmin { (dmin + dmax) / 2.0 } else { t.delay + 0.3125 * t.cycle }, dmax + 0.8125 * t.cycle, dmax + 1.3125 * t.cycle, t.delay + if t.reverse { 0.25 } else { 0.5 } * t.cycle, far.max(dmax + 2.6875 * t.cycle)]
}

type Meta = (u32, u32, u32, Repeat);

fn meta<T: Timeline>(tl: &T) -> Meta {
    (tl.delay().to_bits(), tl.duration().to_bits(), tl.cycle_duration().map(|c| c.to_bits()).unwrap_or(u32::MAX), tl.repeat())
}

#[derive(Clone)]
struct St<T: Clone> {
    objs: [T; 2],
    start: [Option<u8>; 2],
    prev: P,
}

#[derive(Default)]
struct Acc {
    sink: VSink,
    nodes: u64,
    updates: u64,
    sequences: u64,
    distinct_results: std::collections::HashSet<[u64; 5]>,
    samples: Vec<Value>,
}

struct Ctx<'a> {
    desc: &'a Value,
    ops: &'a [Op],
    times: &'a [f32],
    /// memo[start id (0 = none, 1..=3)][time] = result into the sentinel target from a pristine twin
    memo: Vec<Vec<P>>,
    def: (bool, bool),
    meta: Meta,
    depth: usize,
    rank0: u64,
}

fn opname(op: &Op, times: &[f32]) -> String {
    match *op {
        Op::Update { obj, kind, ti } => format!("{}.update({}, t={})", ["X", "Y"][obj as usize], ["fresh", "dirty", "previous-result"][kind as usize], times[ti as usize]),
        Op::Start { obj, vi } => format!("{}.start_with(v{})", ["X", "Y"][obj as usize], vi),
        Op::CloneXY => "Y = X.clone()".into(),
        Op::CloneYX => "X = Y.clone()".into(),
        Op::CloneFromXY => "Y.clone_from(&X)".into(),
        Op::CloneFromYX => "X.clone_from(&Y)".into(),
    }
}

/// Applies one operation to the state, checking the clauses; `hist` already contains `op`.
fn apply<T: Timeline<Target = P> + Clone>(c: &Ctx, s: &mut St<T>, op: &Op, hist: &[Op], acc: &mut Acc) {
    acc.nodes += 1;
    let names = || hist.iter().map(|o| opname(o, c.times)).collect::<Vec<_>>();
    match *op {
        Op::Update { obj, kind, ti } => {
            let input = match kind {
                0 => P::sentinel(),
                1 => dirty(),
                _ => s.prev.clone(),
            };
            let mut got = input.clone();
            s.objs[obj as usize].update(&mut got, c.times[ti as usize]);
            acc.updates += 1;
            let m = &c.memo[s.start[obj as usize].map(|v| v as usize + 1).unwrap_or(0)][ti as usize];
            let mut want = input.clone();
            if c.def.0 {
                want.a = m.a;
            }
            if c.def.1 {
                want.k = m.k;
            }
            if acc.distinct_results.len() < 2048 {
                acc.distinct_results.insert(got.bits());
            }
            if got.bits() != want.bits() {
                let clause = match kind {
                    0 => "after-history",
                    1 => "depends-on-prior-target-contents",
                    _ => "depends-on-previous-result",
                };
                acc.sink.add(&format!("update-result-{clause}"), c.rank0 | hist.len() as u64, || (format!("after {:?}: got {:?}, pristine twin gives {:?}", names(), got, want), json!({"object": c.desc, "history": names()})));
            }
            s.prev = got;
        }
        Op::Start { obj, vi } => {
            s.objs[obj as usize].start_with(&starts()[vi as usize]);
            s.start[obj as usize] = Some(vi);
        }
        Op::CloneXY => {
            s.objs[1] = s.objs[0].clone();
            s.start[1] = s.start[0];
        }
        Op::CloneYX => {
            s.objs[0] = s.objs[1].clone();
            s.start[0] = s.start[1];
        }
        Op::CloneFromXY => {
            let (x, y) = s.objs.split_at_mut(1);
            y[0].clone_from(&x[0]);
            s.start[1] = s.start[0];
        }
        Op::CloneFromYX => {
            let (x, y) = s.objs.split_at_mut(1);
            x[0].clone_from(&y[0]);
            s.start[0] = s.start[1];
        }
    }
    for o in 0..2 {
        if meta(&s.objs[o]) != c.meta {
            acc.sink.add("metadata-changed", c.rank0 | hist.len() as u64, || (format!("metadata changed after {:?}", names()), json!({"object": c.desc, "history": names()})));
        }
    }
}

fn dfs<T: Timeline<Target = P> + Clone>(c: &Ctx, st: &St<T>, hist: &mut Vec<Op>, acc: &mut Acc) {
    if hist.len() == c.depth {
        acc.sequences += 1;
        return;
    }
    for op in c.ops {
        let mut s = st.clone();
        hist.push(*op);
        apply(c, &mut s, op, hist, acc);
        dfs(c, &s, hist, acc);
        hist.pop();
    }
}

/// Explores all sequences of length `depth` whose first operation is `ops[first]`.
fn explore<T: Timeline<Target = P> + Clone>(build: &dyn Fn() -> T, desc: &Value, def: (bool, bool), times: &[f32], ops: &[Op], first: usize, depth: usize, rank0: u64, acc: &mut Acc) {
    let base = build();
    let mut memo = vec![];
    for sid in 0..4 {
        let mut tl = build();
        if sid > 0 {
            tl.start_with(&starts()[sid - 1]);
        }
        memo.push(times.iter().map(|&t| { let mut p = P::sentinel(); tl.update(&mut p, t); p }).collect::<Vec<_>>());
    }
    let ctx = Ctx { desc, ops, times, memo, def, meta: meta(&base), depth, rank0 };
    let mut st = St { objs: [base.clone(), base], start: [None, None], prev: P::sentinel() };
    let mut hist = vec![ops[first]];
    apply(&ctx, &mut st, &ops[first], &hist.clone(), acc);
    dfs(&ctx, &st, &mut hist, acc);
}

pub fn run(run: Run) -> ! {
    let (depth, nspecs) = if run.is_thorough() { (5usize, 24usize) } else { (4usize, 10usize) };
    let thetas = theta();
    // a fixed, structurally varied selection of keyframe lists from T(2) and T(3)
    let mut kfss: Vec<Vec<Kf>> = vec![];
    let c3 = count_t(3, 5);
    let c2 = count_t(2, 5);
    let mut i = 0u64;
    while kfss.len() < nspecs {
        let (n, c) = if i % 3 == 2 { (2usize, c2) } else { (3usize, c3) };
        let idx = (i * 7919 + 1234 * (i % 5)) % c;
        // easing alphabet alternates between (custom, built-in) and two different customs
        if let Some(k) = decode_t(n, &GRID5, idx, 1, if i % 2 == 0 { 3 } else { 2 }, false) {
            if k.iter().any(|x| x.a.is_some() || x.k.is_some()) {
                kfss.push(k);
            }
        }
        i += 1;
    }
    // objects: every (keyframe list, timing) as a plain timeline; plus merged pairs whose components
    // have different delays (and one merged single)
    let mut objects: Vec<Vec<TlSpec>> = vec![];
    for (si, k) in kfss.iter().enumerate() {
        for th in &thetas {
            objects.push(vec![TlSpec { kfs: k.clone(), default_easing: if si % 2 == 0 { 0 } else { 3 }, timing: *th }]);
        }
    }
    // two timelines with many keyframes (17 and 33): scrubbing jumps over several keyframes at once
    objects.push(vec![crate::common::wide_spec(4, 1, thetas[1])]);
    objects.push(vec![crate::common::wide_spec(5, 1, thetas[4])]);
    let n_single = objects.len();
    let pairs = [(0usize, 1usize), (1, 4), (3, 2), (4, 1), (5, 3), (1, 3)];
    for (pi, &(t1, t2)) in pairs.iter().enumerate() {
        for v in 0..(nspecs / 5).max(2) {
            let a = &kfss[(pi + v) % kfss.len()];
            let b = &kfss[(pi * 3 + v + 1) % kfss.len()];
            objects.push(vec![TlSpec { kfs: a.clone(), default_easing: 0, timing: thetas[t1] }, TlSpec { kfs: b.clone(), default_easing: 3, timing: thetas[t2] }]);
        }
    }
    // passes: (depth, full 7-time grid?). The deepest pass of the thorough tier keeps the six-time grid it was
    // sized for (without the end-of-first-cycle instant); the seven-time grid is explored to depth 4 in both tiers.
    let passes: Vec<(usize, bool)> = if run.is_thorough() { vec![(5, false), (4, true)] } else { vec![(4, true)] };
    let (ops7, ops6) = (alphabet(7), alphabet(6));
    let ops = ops7.clone();
    let mut items = vec![];
    for (pi, &(_, full)) in passes.iter().enumerate() {
        for oi in 0..objects.len() {
            for fo in 0..(if full { ops7.len() } else { ops6.len() }) {
                items.push((pi, oi, fo));
            }
        }
    }
    let acc = par_fold(
        items.len(),
        Acc::default,
        |ii, acc| {
            let (pi, oi, fo) = items[ii];
            let (depth, full) = passes[pi];
            let ops = if full { &ops7 } else { &ops6 };
            let specs = &objects[oi];
            let desc = json!({"components": specs.iter().map(|s| s.to_json()).collect::<Vec<_>>(), "merged": oi >= n_single});
            let def = (specs.iter().any(|s| s.kfs.iter().any(|k| k.a.is_some())), specs.iter().any(|s| s.kfs.iter().any(|k| k.k.is_some())));
            let mut tms = times_for(&specs.iter().map(|s| s.timing).collect::<Vec<_>>());
            if !full {
                tms.remove(1);
            }
            let rank0 = (pi as u64) << 60 | (oi as u64) << 32 | (fo as u64) << 8;
            if oi < n_single {
                explore::<PTimeline>(&|| specs[0].build(), &desc, def, &tms, ops, fo, depth, rank0, acc);
            } else {
                explore::<MergedTimeline<PTimeline>>(&|| MergedTimeline::of(specs.iter().map(|s| s.build()).collect::<Vec<_>>()), &desc, def, &tms, ops, fo, depth, rank0, acc);
            }
            if acc.samples.len() < 2 && (oi == 9 || oi == n_single + 1) && fo == 7 {
                acc.samples.push(json!({"object": desc, "first_op": opname(&ops[fo], &tms), "alphabet": ops.iter().map(|o| opname(o, &tms)).collect::<Vec<_>>(), "depth": depth}));
            }
        },
        |a, b| {
            a.sink.merge(b.sink);
            a.nodes += b.nodes;
            a.updates += b.updates;
            a.sequences += b.sequences;
            a.distinct_results.extend(b.distinct_results);
            if a.samples.len() < 2 {
                a.samples.extend(b.samples);
            }
        },
    );
    let mut cov = Map::new();
    cov.insert("states".into(), json!(acc.nodes));
    cov.insert("transitions".into(), json!(acc.nodes));
    cov.insert("traces_validated_against_impl".into(), json!(acc.sequences));
    cov.insert("evaluations".into(), json!(acc.updates));
    cov.insert("distinct_nontrivial".into(), json!(acc.sequences));
    cov.insert("rule".into(), json!(format!("{} plain timelines ({} keyframe lists from T(2),T(3) x 6 timings) 2 timelines with 17 / 33 keyframes, and {} merged timelines (two components with different delays/timings); objects X and Y (clone slot); alphabet of {} operations: update(obj, target in {{fresh sentinel, dirty, previous result}}, 7 times spanning before-start (negative zero when there is no delay) / exactly the end of the first cycle (hold instant) / between the component delays / first pass / second pass-or-after-end / exactly on the 50% keyframe position / far), start_with(obj, 3 values), Y=X.clone(), X=Y.clone(), Y.clone_from(&X), X.clone_from(&Y); ALL sequences of length {} (stateless DFS, state = history; the thorough tier explores length 5 over the grid without the end-of-first-cycle instant and length 4 over the full grid); oracle: every update equals the memo entry (latest start value of that object, time) computed on a pristine twin into a fresh target, untouched fields keep the input's bits; delay/cycle/duration/repeat never change; non-trivial = complete sequences", n_single, kfss.len(), objects.len() - n_single, ops.len(), depth)));
    cov.insert("exhaustive".into(), json!(true));
    cov.insert("depth".into(), json!(depth));
    cov.insert("distinct_update_results_capped".into(), json!(acc.distinct_results.len()));
    cov.insert("samples".into(), json!(acc.samples));
    run.finish(acc.sink, cov, vec!["relational oracle (pristine twin of the same build); the twin itself is bound to the reference by C01/C10/C12".into()])
}

pub fn replay(case: &Value) -> bool {
    // Re-executes the recorded history on a fresh object and its pristine twins.
    let specs: Vec<TlSpec> = case["object"]["components"].as_array().map(|a| a.iter().map(TlSpec::from_json).collect()).unwrap_or_default();
    let merged = case["object"]["merged"].as_bool().unwrap_or(false);
    let hist_names: Vec<String> = case["history"].as_array().map(|a| a.iter().map(|x| x.as_str().unwrap_or("").to_string()).collect()).unwrap_or_default();
    let tms = times_for(&specs.iter().map(|s| s.timing).collect::<Vec<_>>());
    let ops = alphabet(7);
    let mut hist: Vec<Op> = vec![];
    for n in &hist_names {
        match ops.iter().find(|o| &opname(o, &tms) == n) {
            Some(o) => hist.push(*o),
            None => {
                println!("cannot decode operation {n}");
                return false;
            }
        }
    }
    if hist.is_empty() {
        return true;
    }
    let def = (specs.iter().any(|s| s.kfs.iter().any(|k| k.a.is_some())), specs.iter().any(|s| s.kfs.iter().any(|k| k.k.is_some())));
    let desc = case["object"].clone();
    let mut acc = Acc::default();
    // run exactly this history: restrict the alphabet per step by exploring depth == 1 chains
    fn run_hist<T: Timeline<Target = P> + Clone>(build: &dyn Fn() -> T, desc: &Value, def: (bool, bool), tms: &[f32], hist: &[Op], acc: &mut Acc) {
        let base = build();
        let mut memo = vec![];
        for sid in 0..4 {
            let mut tl = build();
            if sid > 0 {
                tl.start_with(&starts()[sid - 1]);
            }
            memo.push(tms.iter().map(|&t| { let mut p = P::sentinel(); tl.update(&mut p, t); p }).collect::<Vec<_>>());
        }
        let ctx = Ctx { desc, ops: &[], times: tms, memo, def, meta: meta(&base), depth: hist.len(), rank0: 0 };
        let mut st = St { objs: [base.clone(), base], start: [None, None], prev: P::sentinel() };
        for i in 0..hist.len() {
            apply(&ctx, &mut st, &hist[i], &hist[..=i], acc);
            println!("{} -> previous-result {:?}", opname(&hist[i], tms), st.prev);
        }
    }
    if merged {
        run_hist::<MergedTimeline<PTimeline>>(&|| MergedTimeline::of(specs.iter().map(|s| s.build()).collect::<Vec<_>>()), &desc, def, &tms, &hist, &mut acc);
    } else {
        run_hist::<PTimeline>(&|| specs[0].build(), &desc, def, &tms, &hist, &mut acc);
    }
    for (s, v) in &acc.sink.map {
        println!("{s}: {}", v.desc);
    }
    acc.sink.map.is_empty()
}
