//! Helpers shared by the timeline-family checks (E1).

use mina::prelude::*;
use serde_json::{json, Value};
use vlib::model::*;
use vlib::spec::*;

/// Far-away start value used by `start_with` cases.
pub fn vstar() -> P {
    P { a: 1000.0, k: -5000, d: 2048.0, u: 77.0, z: 88.0 }
}

pub fn eval_real(tl: &PTimeline, t: f32, init: &P) -> P {
    let mut p = init.clone();
    tl.update(&mut p, t);
    p
}

/// Compares one evaluation with the reference output; returns the first mismatch description.
pub fn compare(got: &P, init: &P, want: &RefOut, rt: &RefTl, start: Option<&P>) -> Result<(), String> {
    let sc = |p: &RefProp, s: Option<f64>| p.scale.max(s.map(|x| x.abs()).unwrap_or(0.0));
    cmp_float("a", got.a as f64, got.a.to_bits() == init.a.to_bits(), want.a, sc(&rt.a, start.map(|s| s.a as f64)), false)?;
    cmp_float("k", got.k as f64, got.k == init.k, want.k, sc(&rt.k, start.map(|s| s.k as f64)), true)?;
    cmp_float("d", got.d, got.d.to_bits() == init.d.to_bits(), want.d, sc(&rt.d, start.map(|s| s.d)), false)?;
    if got.u.to_bits() != init.u.to_bits() {
        return Err(format!("u: never keyframed but modified ({} -> {})", init.u, got.u));
    }
    if got.z.to_bits() != init.z.to_bits() {
        return Err(format!("z: not #[animate] but modified ({} -> {})", init.z, got.z));
    }
    Ok(())
}

pub fn case_json(spec: &TlSpec, start: Option<&P>, t: f32, init: &P) -> Value {
    json!({"timeline": spec.to_json(), "start_with": start.map(|s| s.to_json()), "time": fj(t),
           "time_bits": format!("{:08x}", t.to_bits()), "target_before": init.to_json(),
           "rust": format!("let mut tl = {};\n{}let mut p = target_before; tl.update(&mut p, f32::from_bits(0x{:08x}));",
                spec.rust_source(), if start.is_some() { "tl.start_with(&start);\n" } else { "" }, t.to_bits())})
}

pub fn case_from_json(v: &Value) -> (TlSpec, Option<P>, f32, P) {
    let spec = TlSpec::from_json(&v["timeline"]);
    let start = if v["start_with"].is_null() { None } else { Some(P::from_json(&v["start_with"])) };
    let t = f32::from_bits(u32::from_str_radix(v["time_bits"].as_str().unwrap_or("0"), 16).unwrap_or(0));
    let init = P::from_json(&v["target_before"]);
    (spec, start, t, init)
}
