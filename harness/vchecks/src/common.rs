//! Helpers shared by the timeline-family checks (E1).

use mina::prelude::*;
use serde_json::{json, Value};
use vlib::model::*;
use vlib::spec::*;

/// Far-away start value used by `start_with` cases.
pub fn vstar() -> P {
    P { a: 1000.0, k: -5000, d: 2048.0, u: 77.0, z: 88.0 }
}

pub fn eval_real(tl: &PTimeline, t: f32, init: &P) -> P {
    let mut p = init.clone();
    tl.update(&mut p, t);
    p
}

/// `eval_real` under catch_unwind: None if `Timeline::update` panicked (reported as a violation by the
/// callers - a panic produces no value at all).
pub fn try_eval_real(tl: &PTimeline, t: f32, init: &P) -> Option<P> {
    std::panic::catch_unwind(std::panic::AssertUnwindSafe(|| eval_real(tl, t, init))).ok()
}

/// Compares one evaluation with the reference output; returns the first mismatch description.
pub fn compare(got: &P, init: &P, want: &RefOut, rt: &RefTl, start: Option<&P>) -> Result<(), String> {
    let sc = |p: &RefProp, s: Option<f64>| p.scale.max(s.map(|x| x.abs()).unwrap_or(0.0));
    cmp_float("a", got.a as f64, got.a.to_bits() == init.a.to_bits(), want.a, sc(&rt.a, start.map(|s| s.a as f64)), false)?;
    cmp_float("k", got.k as f64, got.k == init.k, want.k, sc(&rt.k, start.map(|s| s.k as f64)), true)?;
    cmp_float("d", got.d, got.d.to_bits() == init.d.to_bits(), want.d, sc(&rt.d, start.map(|s| s.d)), false)?;
    if got.u.to_bits() != init.u.to_bits() {
        return Err(format!("u: never keyframed but modified ({} -> {})", init.u, got.u));
    }
    if got.z.to_bits() != init.z.to_bits() {
        return Err(format!("z: not #[animate] but modified ({} -> {})", init.z, got.z));
    }
    Ok(())
}

/// Assertion lines (Rust) for a generated unit test from a reference output.
pub fn asserts_for(want: &RefOut, rt: &RefTl, start: Option<&P>) -> Vec<String> {
    let mut v = vec![];
    let sc = |p: &RefProp, s: Option<f64>| p.scale.max(s.map(|x| x.abs()).unwrap_or(0.0));
    let mut one = |name: &str, rv: RV, scale: f64, int: bool, as_f64: &str| match rv {
        RV::Val(w) => {
            let t = tol(scale.max(w.abs()), 2.0 * scale.max(w.abs())) + if int { 0.5 } else { 0.0 };
            v.push(format!("assert!(({as_f64} - ({w:?}f64)).abs() <= {t:e}, \"{name} = {{:?}}, reference {w:?} (tolerance {t:e})\", got.{name});"));
        }
        RV::Untouched => v.push(format!("assert!(format!(\"{{:?}}\", got.{name}) == format!(\"{{:?}}\", before.{name}) || got.{name} == before.{name}, \"{name} must not be touched\");")),
        RV::Ambiguous => {}
    };
    one("a", want.a, sc(&rt.a, start.map(|s| s.a as f64)), false, "got.a as f64");
    one("k", want.k, sc(&rt.k, start.map(|s| s.k as f64)), true, "got.k as f64");
    one("d", want.d, sc(&rt.d, start.map(|s| s.d)), false, "got.d");
    v.push("assert!(got.u.to_bits() == before.u.to_bits() && got.z.to_bits() == before.z.to_bits(), \"u/z must not be touched\");".into());
    v
}

pub fn case_json(spec: &TlSpec, start: Option<&P>, t: f32, init: &P) -> Value {
    json!({"timeline": spec.to_json(), "start_with": start.map(|s| s.to_json()), "time": fj(t),
           "time_bits": format!("{:08x}", t.to_bits()), "target_before": init.to_json(),
           "rust": format!("let mut tl = {};\n{}let mut p = target_before; tl.update(&mut p, f32::from_bits(0x{:08x}));",
                spec.rust_source(), if start.is_some() { "tl.start_with(&start);\n" } else { "" }, t.to_bits())})
}

pub fn case_from_json(v: &Value) -> (TlSpec, Option<P>, f32, P) {
    let spec = TlSpec::from_json(&v["timeline"]);
    let start = if v["start_with"].is_null() { None } else { Some(P::from_json(&v["start_with"])) };
    let t = f32::from_bits(u32::from_str_radix(v["time_bits"].as_str().unwrap_or("0"), 16).unwrap_or(0));
    let init = P::from_json(&v["target_before"]);
    (spec, start, t, init)
}

// ------------------------------------------------------------------------------------------------
// Shared enumeration driver for T(n) x default easings.

use vlib::util::par_fold;

pub const CHUNK: u64 = 512;

/// Enumerates every keyframe list of size 0..=nmax (see `decode_t`) x default easing, in parallel.
/// `f(acc, n, idx, default_easing, kfs, rank)`.
pub fn for_each_kfs<A: Send>(
    nmax: usize,
    grid: &'static [f32],
    default_easings: &[u8],
    distinct_per_prop: bool,
    init: impl Fn() -> A + Sync,
    f: impl Fn(&mut A, usize, u64, u8, &Vec<Kf>, u64) + Sync,
    merge: impl Fn(&mut A, A),
) -> A {
    let mut items: Vec<(usize, u8, u64)> = vec![];
    for n in 0..=nmax {
        let c = count_t(n, grid.len());
        for &de in default_easings {
            let mut s = 0;
            while s < c {
                items.push((n, de, s));
                s += CHUNK;
            }
        }
    }
    par_fold(
        items.len(),
        init,
        |i, acc| {
            let (n, de, s0) = items[i];
            let c = count_t(n, grid.len());
            for idx in s0..(s0 + CHUNK).min(c) {
                if let Some(kfs) = decode_t(n, grid, idx, 1, 2, distinct_per_prop) {
                    let rank = (n as u64) << 44 | idx << 8;
                    f(acc, n, idx, de, &kfs, rank);
                }
            }
        },
        merge,
    )
}

/// Tight comparison used where the statement promises exactness: integers exactly, floats within
/// `ulps` ulp32 of the reference value.
pub fn compare_tight(name: &str, got: f64, want: f64, int: bool, ulps: f64) -> Result<(), String> {
    if int {
        if got == want {
            return Ok(());
        }
        return Err(format!("{name}: got {got}, must be exactly {want}"));
    }
    let tol = ulps * (vlib::util::ulp32(want as f32) as f64);
    if (got - want).abs() <= tol && got.is_finite() {
        Ok(())
    } else {
        Err(format!("{name}: got {got}, must be within {ulps} ulp of {want}"))
    }
}

/// Variant of a keyframe list in which the f32 property `a` is replaced by the f64 property `d`
/// (same positions, easings and f32-representable values), so the f64 path is enumerated too.
pub fn remap_a_to_d(kfs: &[Kf]) -> Vec<Kf> {
    kfs.iter().map(|k| Kf { pos: k.pos, a: None, k: k.k, d: k.a.map(|v| v as f64 * 0.5), easing: k.easing }).collect()
}

// ------------------------------------------------------------------------------------------------
// "Wide" and "tall" families: keyframe counts far above the small-scope bound T(n), structured so that
// every position, sample time and expected value is still exact in f32. They exist because index
// arithmetic (per-property index maps, frame lookup, any narrowed or estimated index) only goes wrong
// beyond a certain count or for uneven spacing - which a bound of 5 keyframes can never show.

fn zig(i: u32) -> f32 {
    ((i.wrapping_mul(37)) % 64) as f32 * 2.0 - 64.0 + (i / 64) as f32
}

/// 2^j + 1 keyframes at the positions i / 2^j. Pattern 0: `a` on every keyframe (zig-zag values), `k` on
/// every third, `d` on every fifth; pattern 1: `a` on the even keyframes only, `k` on every keyframe.
/// Per-keyframe easings x^2 / 1-(1-x)^2 on a fixed sub-pattern, default easing Linear.
pub fn wide_spec(j: u32, pattern: u8, timing: Timing) -> TlSpec {
    let n = 1u32 << j;
    let kfs = (0..=n)
        .map(|i| {
            let pos = i as f32 / n as f32;
            let easing = match i % 8 {
                1 => Some(1u8),
                6 => Some(2u8),
                _ => None,
            };
            if pattern == 0 {
                Kf {
                    pos,
                    a: Some(zig(i)),
                    k: if i % 3 == 0 { Some(((i.wrapping_mul(7919)) % 2001) as i32 - 1000) } else { None },
                    d: if i % 5 == 0 { Some((i % 17) as f64 * 0.5 - 3.0) } else { None },
                    easing,
                }
            } else {
                Kf { pos, a: if i % 2 == 0 { Some(zig(i / 2)) } else { None }, k: Some(((i.wrapping_mul(31)) % 512) as i32 - 256), d: None, easing }
            }
        })
        .collect();
    TlSpec { kfs, default_easing: 0, timing }
}

/// "Stepped" timeline: 2^j holds. Hold i shows the value v_i from i/2^j to (i+1)/2^j, written as two
/// keyframes (start of the hold, end of the hold); consecutive holds meet at one position, where the end of
/// hold i and the start of hold i+1 are two keyframes with different values for the same properties (an
/// instantaneous jump). All end-of-hold keyframes are added first, then all start-of-hold keyframes, so the
/// list is not in position order and the order of the tied keyframes is the insertion order.
pub fn stepped_spec(j: u32, timing: Timing) -> TlSpec {
    let n = 1u32 << j;
    let pos = |i: u32| i as f32 / n as f32;
    let val = |i: u32| (zig(i), (i as i32 * 37) % 1000 - 500);
    let mut kfs = vec![];
    for i in 0..n {
        let (a, k) = val(i);
        kfs.push(Kf { pos: pos(i + 1), a: Some(a), k: Some(k), d: None, easing: None });
    }
    for i in 0..n {
        let (a, k) = val(i);
        kfs.push(Kf { pos: pos(i), a: Some(a), k: Some(k), d: None, easing: if i % 5 == 2 { Some(1) } else { None } });
    }
    TlSpec { kfs, default_easing: 0, timing }
}

/// The two timing configurations of the wide/tall families and, for a position q in [0,1], the exact
/// times at which the timeline is at q (forward pass; and the reverse pass of the reversing one).
pub fn wide_timings() -> [Timing; 2] {
    [Timing::new(1.0, 0.0, Rep::None, false), Timing::new(2.0, 0.25, Rep::Times(1), true)]
}

pub fn wide_times(timing: &Timing, q: f32) -> Vec<f32> {
    if timing.reverse {
        // first cycle forward and backward, second cycle forward
        vec![timing.delay + q * timing.cycle / 2.0, timing.delay + timing.cycle - q * timing.cycle / 2.0, timing.delay + timing.cycle + q * timing.cycle / 2.0]
    } else {
        vec![timing.delay + q * timing.cycle]
    }
}

/// Sample positions of a wide timeline: every keyframe position and every segment midpoint.
pub fn wide_positions(j: u32) -> impl Iterator<Item = f32> {
    let n2 = 1u32 << (j + 1);
    (0..=n2).map(move |i| i as f32 / n2 as f32)
}

/// Every subset (size >= 2) of the 9-point grid {0,1/8,..,1} as the position list of one timeline ("tall":
/// up to 9 keyframes, all spacings incl. very uneven ones), two content patterns.
pub fn tall_specs(timing: Timing) -> Vec<TlSpec> {
    let mut v = vec![];
    for mask in 0u32..512 {
        if mask.count_ones() < 2 {
            continue;
        }
        for pattern in 0..2u8 {
            let mut kfs = vec![];
            let mut ord = 0u32;
            for b in 0..9u32 {
                if mask & (1 << b) == 0 {
                    continue;
                }
                let pos = b as f32 / 8.0;
                let easing = match (ord + pattern as u32) % 3 {
                    1 => Some(1u8),
                    2 => Some(2u8),
                    _ => None,
                };
                let a = if pattern == 0 || ord % 2 == 0 { Some(zig(ord * 5 + b)) } else { None };
                let k = if pattern == 1 || ord % 2 == 1 { Some((b as i32 * 37 % 100) * 10 - 400) } else { None };
                kfs.push(Kf { pos, a, k, d: if pattern == 1 && b % 3 == 0 { Some(b as f64 * 1.5) } else { None }, easing });
                ord += 1;
            }
            v.push(TlSpec { kfs, default_easing: if mask % 2 == 0 { 0 } else { 3 }, timing });
        }
    }
    v
}

/// "Micro" family: two consecutive keyframes of one property closer together than f32::EPSILON (but at
/// distinct positions), evaluated at the floats strictly between them. Cycle 1 s, no delay, so the time is
/// the position; all fractions are dyadic, hence exact.
pub fn micro_cases() -> Vec<(TlSpec, Vec<f32>)> {
    let timing = Timing::new(1.0, 0.0, Rep::None, false);
    let mut v = vec![];
    let ulps = |x: f32, k: u32| f32::from_bits(x.to_bits() + k);
    let pairs: Vec<(f32, f32, Vec<f32>)> = vec![
        (0.0, 5.9604645e-8, vec![1.4901161e-8, 2.9802322e-8, 4.4703484e-8]),           // 0 .. 2^-24
        (0.0, 9.313226e-10, vec![2.3283064e-10, 4.656613e-10, 6.9849193e-10]),          // 0 .. 2^-30
        (0.25, ulps(0.25, 4), vec![ulps(0.25, 1), ulps(0.25, 2), ulps(0.25, 3)]),
        (0.125, ulps(0.125, 8), vec![ulps(0.125, 2), ulps(0.125, 4), ulps(0.125, 6)]),
        (0.0009765625, ulps(0.0009765625, 16), vec![ulps(0.0009765625, 4), ulps(0.0009765625, 8), ulps(0.0009765625, 12)]),
        (0.375, ulps(0.375, 2), vec![ulps(0.375, 1)]),
    ];
    for (p, q, ts) in pairs {
        for with_outer in [false, true] {
            let mut kfs = vec![];
            if with_outer && p > 0.0 {
                kfs.push(Kf { pos: 0.0, a: Some(-8.0), k: Some(-80), d: None, easing: None });
            }
            kfs.push(Kf { pos: p, a: Some(0.0), k: Some(0), d: Some(0.0), easing: None });
            kfs.push(Kf { pos: q, a: Some(64.0), k: Some(100), d: Some(-32.0), easing: None });
            if with_outer {
                kfs.push(Kf { pos: 1.0, a: Some(16.0), k: Some(7), d: None, easing: None });
            }
            v.push((TlSpec { kfs, default_easing: 0, timing }, ts.clone()));
        }
    }
    v
}

/// "Cluster" family: 17 regular keyframes at j/16 plus a cluster of 8 keyframes on consecutive f32 values just above
/// 1/2 (half an f32::EPSILON apart: closer than any tolerance-based comparison of positions could separate), 25-33
/// keyframes in all - more than the small-sort threshold of the standard library. Property `a` on every keyframe,
/// `k` on the cluster. Insertion order by `variant`: 0 ascending; 1 regular grid first, then the cluster descending;
/// 2 cluster positions interleaved with the grid in a shuffled (stride-7) order; 3 one pass per property (all `a`
/// keyframes ascending, then separate `k` keyframes on the cluster positions descending).
pub fn cluster_spec(variant: u8, timing: Timing) -> (TlSpec, Vec<f32>) {
    let cl: Vec<f32> = (0..8u32).map(|i| f32::from_bits(0.5f32.to_bits() + 1 + i)).collect();
    let grid: Vec<f32> = (0..=16).map(|j| j as f32 / 16.0).collect();
    let mut all: Vec<(f32, bool)> = grid.iter().map(|&p| (p, false)).chain(cl.iter().map(|&p| (p, true))).collect();
    all.sort_by(|x, y| x.0.total_cmp(&y.0));
    let val = |idx: usize| zig(idx as u32 * 3 + 1);
    let kval = |idx: usize| (idx as i32 * 53) % 400 - 200;
    // ascending list with values by rank
    let asc: Vec<Kf> = all.iter().enumerate().map(|(i, &(p, c))| Kf { pos: p, a: Some(val(i)), k: if c && variant != 3 { Some(kval(i)) } else { None }, d: None, easing: None }).collect();
    let mut kfs: Vec<Kf> = match variant {
        0 | 3 => asc.clone(),
        1 => {
            let mut v: Vec<Kf> = asc.iter().filter(|k| !cl.contains(&k.pos)).cloned().collect();
            v.extend(asc.iter().filter(|k| cl.contains(&k.pos)).rev().cloned());
            v
        }
        _ => {
            let n = asc.len();
            (0..n).map(|i| asc[(i * 7) % n].clone()).collect()
        }
    };
    if variant == 3 {
        for (i, &(p, c)) in all.iter().enumerate().rev() {
            if c {
                kfs.push(Kf { pos: p, a: None, k: Some(kval(i)), d: None, easing: None });
            }
        }
    }
    // sample: every cluster position, every grid position and every grid midpoint
    let mut ts: Vec<f32> = cl.clone();
    for j in 0..=32 {
        ts.push(j as f32 / 32.0);
    }
    (TlSpec { kfs, default_easing: 0, timing }, ts)
}
