//! `vcheck <id> [quick|thorough] [--replay <file>]` — one subcommand per property.

mod common;
mod anim;
mod c01;
mod c02;
mod c20;
mod c14;
mod c13;
mod c03;
mod c12;
mod c10;
mod c09;
mod c11;
mod c08;

use vlib::util::*;

fn main() {
    let args: Vec<String> = std::env::args().skip(1).collect();
    if args.is_empty() {
        machinery_fail("usage: vcheck <id> [quick|thorough] [--replay <file>]");
    }
    let id = args[0].to_uppercase();
    let mut tier = std::env::var("VERIF_TIER").unwrap_or_else(|_| "quick".into());
    let mut replay: Option<String> = None;
    let mut i = 1;
    while i < args.len() {
        match args[i].as_str() {
            "quick" | "thorough" => tier = args[i].clone(),
            "--tier" => {
                i += 1;
                tier = args[i].clone();
            }
            "--digest-only" => {
                silence_panics();
                c20::digest_only();
                return;
            }
            "--replay" => {
                i += 1;
                replay = Some(args[i].clone());
            }
            other => machinery_fail(&format!("unknown argument {other}")),
        }
        i += 1;
    }
    if tier != "quick" && tier != "thorough" {
        machinery_fail("tier must be quick or thorough");
    }
    silence_panics();
    if let Some(path) = replay {
        let txt = std::fs::read_to_string(&path).unwrap_or_else(|e| machinery_fail(&format!("read {path}: {e}")));
        let v: serde_json::Value = serde_json::from_str(&txt).unwrap_or_else(|e| machinery_fail(&format!("parse {path}: {e}")));
        let ok = match id.as_str() {
            "C01" => c01::replay(&v["case"]),
            "C04" => anim::replay(&v["case"], anim::Prop::C04),
            "C05" => anim::replay(&v["case"], anim::Prop::C05),
            "C06" => anim::replay(&v["case"], anim::Prop::C06),
            "C07" => anim::replay(&v["case"], anim::Prop::C07),
            "C02" => c02::replay(&v["case"]),
            "C20" => c20::replay(&v["case"]),
            "C14" => c14::replay(&v["case"]),
            "C13" => c13::replay(&v["case"]),
            "C03" => c03::replay(&v["case"]),
            "C12" => c12::replay(&v["case"]),
            "C10" => c10::replay(&v["case"]),
            "C09" => c09::replay(&v["case"]),
            "C11" => c11::replay(&v["case"]),
            "C08" => c08::replay(&v["case"]),
            _ => machinery_fail("no replay for this id"),
        };
        if ok {
            println!("replay: property holds on this case");
            std::process::exit(0);
        } else {
            println!("VIOLATION property={id} replay={path}");
            std::process::exit(1);
        }
    }
    let run = Run::start(&id, &tier);
    match id.as_str() {
        "C01" => c01::run(run),
        "C04" => anim::run(run, anim::Prop::C04),
        "C05" => anim::run(run, anim::Prop::C05),
        "C06" => anim::run(run, anim::Prop::C06),
        "C07" => anim::run(run, anim::Prop::C07),
        "C02" => c02::run(run),
        "C20" => c20::run(run),
        "C14" => c14::run(run),
        "C13" => c13::run(run),
        "C03" => c03::run(run),
        "C12" => c12::run(run),
        "C10" => c10::run(run),
        "C09" => c09::run(run),
        "C11" => c11::run(run),
        "C08" => c08::run(run),
        _ => machinery_fail("unknown property id"),
    }
}
