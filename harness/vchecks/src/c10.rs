//! C10 — a substituted start value only affects the first forward pass (twin comparison).

use crate::common::*;
use mina::prelude::*;
use serde_json::{json, Map, Value};
use vlib::model::*;
use vlib::spec::*;
use vlib::util::*;

#[derive(Default)]
struct Acc {
    sink: VSink,
    timelines: u64,
    evals: u64,
    exact_start: u64,
    twin_equal: u64,
    first_segment: u64,
    samples: Vec<Value>,
}

fn add(acc: &mut Acc, sig: &str, rank: u64, msg: String, spec: &TlSpec, st: &P, t: f32, init: &P) {
    acc.sink.add(sig, rank, || (msg, case_json(spec, Some(st), t, init)));
}

fn check_case(spec: &TlSpec, rt: &RefTl, tl_s: &PTimeline, twin: &PTimeline, st: &P, t: f32, init: &P, rank: u64, acc: &mut Acc) {
    let got = eval_real(tl_s, t, init);
    let tw = eval_real(twin, t, init);
    acc.evals += 1;
    let ph = ref_phase(&rt.timing, t);
    if t <= rt.timing.delay {
        // exactly v on every animated (keyframed) property
        if rt.a.defined() {
            acc.exact_start += 1;
            if got.a.to_bits() != st.a.to_bits() {
                add(acc, "upto-delay:a-not-start-value", rank, format!("t={t} <= delay: a={} but start value is {}", got.a, st.a), spec, st, t, init);
            }
        }
        if rt.k.defined() {
            acc.exact_start += 1;
            if got.k != st.k {
                add(acc, "upto-delay:k-not-start-value", rank, format!("t={t} <= delay: k={} but start value is {}", got.k, st.k), spec, st, t, init);
            }
        }
        return;
    }
    if ph.start_override_in_force() {
        let q = ph.pos();
        let want = rt.eval_phase(&ph, Some(st));
        // per property: beyond its second frame => bit-equal to the twin, before => RefCss with v
        if rt.a.defined() {
            if q >= rt.a.second_pos().unwrap_or(0.0) {
                acc.twin_equal += 1;
                if got.a.to_bits() != tw.a.to_bits() {
                    add(acc, "first-pass-beyond-second-frame:a-differs-from-twin", rank, format!("t={t} pos={q}: a={} twin {}", got.a, tw.a), spec, st, t, init);
                }
            } else {
                acc.first_segment += 1;
                let sc = rt.a.scale.max(st.a.abs() as f64);
                if let Err(m) = cmp_float("a", got.a as f64, false, want.a, sc, false) {
                    add(acc, "first-segment:a-not-blend-from-start", rank, format!("t={t} pos={q}: {m}"), spec, st, t, init);
                }
            }
        }
        if rt.k.defined() {
            if q >= rt.k.second_pos().unwrap_or(0.0) {
                acc.twin_equal += 1;
                if got.k != tw.k {
                    add(acc, "first-pass-beyond-second-frame:k-differs-from-twin", rank, format!("t={t} pos={q}: k={} twin {}", got.k, tw.k), spec, st, t, init);
                }
            } else {
                acc.first_segment += 1;
                let sc = rt.k.scale.max((st.k as f64).abs());
                if let Err(m) = cmp_float("k", got.k as f64, false, want.k, sc, true) {
                    add(acc, "first-segment:k-not-blend-from-start", rank, format!("t={t} pos={q}: {m}"), spec, st, t, init);
                }
            }
        }
    } else {
        acc.twin_equal += 1;
        if got.bits() != tw.bits() {
            let kind = match ph {
                Phase::Ended { .. } => "after-end",
                Phase::Active { reversing: true, cycle: 0, .. } => "first-reverse-pass",
                _ => "later-cycle",
            };
            add(acc, &format!("{kind}:differs-from-twin"), rank, format!("t={t} phase={ph:?}: {:?} vs twin {:?}", got, tw), spec, st, t, init);
        }
    }
}

/// Keyframes of one property tied at 0% (a step at the very start of the cycle): the stretch "from 0% to the
/// property's next keyframe" is empty, so a substituted start value may only show at position 0 itself; at every
/// position strictly after 0% - first pass included - the results must be bit-identical to the twin.
/// Clones of a timeline that already had its start value substituted: `clone()` and `clone_from` into an
/// object that never had one (and into one that had a different one) evaluate bit-identically to the original.
fn clone_clause(spec: &TlSpec, tls: &PTimeline, twin: &PTimeline, st: &P, grid: &[f32], init: &P, rank: u64, acc: &mut Acc) -> bool {
    let c1 = tls.clone();
    let mut c2 = twin.clone();
    c2.clone_from(tls);
    let mut c3 = twin.clone();
    c3.start_with(&P { a: 555.0, k: -555, ..P::default() });
    c3.clone_from(tls);
    let mut ok = true;
    for &t in grid {
        let want = eval_real(tls, t, init);
        for (via, c) in [("clone", &c1), ("clone_from-into-unstarted", &c2), ("clone_from-into-started", &c3)] {
            let got = eval_real(c, t, init);
            acc.evals += 1;
            acc.twin_equal += 1;
            if got.bits() != want.bits() {
                ok = false;
                add(acc, &format!("clone-after-start_with-differs:{via}"), rank, format!("t={t}: {via} of the started timeline gives {:?}, the original {:?}", got, want), spec, st, t, init);
            }
        }
    }
    ok
}

fn tied_family(thetas: &[Timing], grids: &[Vec<f32>], init: &P, acc: &mut Acc) {
    let k = |pos: f32, a: Option<f32>, kk: Option<i32>, e: Option<u8>| Kf { pos, a, k: kk, d: None, easing: e };
    let lists: Vec<Vec<Kf>> = vec![
        vec![k(0.0, Some(10.0), None, None), k(0.0, Some(50.0), None, None), k(1.0, Some(90.0), None, None)],
        vec![k(0.0, Some(10.0), Some(1), None), k(0.0, Some(50.0), Some(5), Some(1)), k(0.5, Some(30.0), None, None), k(1.0, Some(0.0), Some(9), None)],
        vec![k(0.0, None, Some(-100), None), k(0.0, None, Some(100), None), k(0.0, None, Some(7), None), k(0.75, None, Some(300), Some(2))],
        vec![k(0.0, Some(-8.0), None, None), k(0.0, Some(8.0), Some(3), None), k(0.25, Some(16.0), Some(33), None)],
    ];
    for (li, kfs) in lists.iter().enumerate() {
        for (ti, th) in thetas.iter().enumerate() {
            let spec = TlSpec { kfs: kfs.clone(), default_easing: 0, timing: *th };
            let twin = spec.build();
            let rt = RefTl::new(&spec);
            for st in [vstar(), P::default(), P { a: 50.0, k: 100, ..P::default() }] {
                let mut tls = twin.clone();
                tls.start_with(&st);
                acc.timelines += 1;
                for &t in &grids[ti] {
                    let ph = ref_phase(th, t);
                    let q = ph.pos();
                    if t <= th.delay || (q == 0.0 && matches!(ph, Phase::Active { cycle: 0, reversing: false, .. } | Phase::NotStarted)) {
                        continue;
                    }
                    acc.evals += 1;
                    acc.twin_equal += 1;
                    let (got, tw) = (eval_real(&tls, t, init), eval_real(&twin, t, init));
                    // only the properties that really have two keyframes at 0% (a property keyed once at 0% has a
                    // proper first stretch, which the start value does influence)
                    let differs = (rt.a.dup_at_zero && got.a.to_bits() != tw.a.to_bits()) || (rt.k.dup_at_zero && got.k != tw.k);
                    if differs {
                        add(acc, "tied-at-0%:start-value-leaks-past-the-0%-keyframes", (7u64 << 56) | (li as u64) << 8 | ti as u64, format!("t={t} phase={ph:?}: {:?} vs twin {:?}", got, tw), &spec, &st, t, init);
                    }
                }
            }
        }
    }
}

pub fn run(run: Run) -> ! {
    let nmax = if run.is_thorough() { 4 } else { 3 };
    let thetas = theta_plus();
    let grids: Vec<Vec<f32>> = thetas.iter().map(|th| tau(th, 64)).collect();
    let init = P::sentinel();
    let mut tied = Acc::default();
    tied_family(&thetas, &grids, &init, &mut tied);
    let mut acc = for_each_kfs(
        nmax,
        &GRID5,
        &[0u8, 3u8],
        true,
        Acc::default,
        |acc, n, idx, de, kfs, rank| {
            for (ti, th) in thetas.iter().enumerate() {
                let spec = TlSpec { kfs: kfs.clone(), default_easing: de, timing: *th };
                let rt = RefTl::new(&spec);
                let twin = spec.build();
                // start values: far away, Default, equal to the property's own 0% value
                let own0 = P { a: rt.a.frames.first().map(|f| f.1 as f32).unwrap_or(0.0), k: rt.k.frames.first().map(|f| f.1 as i32).unwrap_or(0), ..P::default() };
                let rank = rank | ti as u64;
                // ... and large odd numbers that f32 still represents exactly (2^23+1, -(2^23+1), 2^24-1)
                let big_odd = P { a: 8_388_609.0, k: -8_388_609, d: 16_777_215.0, ..P::default() };
                for (sti, st) in [vstar(), P::default(), own0, big_odd].into_iter().enumerate() {
                    let mut tls = twin.clone();
                    // every other case substitutes twice: only the latest start value may matter, and the
                    // configured 0% frame must survive both substitutions
                    if (idx as usize + ti + sti) % 2 == 1 {
                        tls.start_with(&P { a: -777.0, k: 4242, ..P::default() });
                    }
                    tls.start_with(&st);
                    acc.timelines += 1;
                    for &t in &grids[ti] {
                        check_case(&spec, &rt, &tls, &twin, &st, t, &init, rank, acc);
                    }
                    // the substituted start value belongs to the timeline object: a clone taken AFTER
                    // start_with (through either Clone method) must show it exactly as the original does
                    if (idx as usize + ti + sti) % 3 == 0 {
                        clone_clause(&spec, &tls, &twin, &st, &grids[ti], &init, rank, acc);
                    }
                }
                if acc.samples.len() < 2 && n == nmax && idx % 3001 == 17 && ti == 7 {
                    let mut tls = twin.clone();
                    tls.start_with(&vstar());
                    let t = grids[ti][40];
                    let mut c = case_json(&spec, Some(&vstar()), t, &init);
                    c["got"] = eval_real(&tls, t, &init).to_json();
                    c["twin"] = eval_real(&twin, t, &init).to_json();
                    acc.samples.push(c);
                }
            }
        },
        |a, b| {
            a.sink.merge(b.sink);
            a.timelines += b.timelines;
            a.evals += b.evals;
            a.exact_start += b.exact_start;
            a.twin_equal += b.twin_equal;
            a.first_segment += b.first_segment;
            if a.samples.len() < 3 {
                a.samples.extend(b.samples);
            }
        },
    );
    // merged timelines: start_with reaches every component
    let left: Vec<Vec<Kf>> = (1..=2usize).flat_map(|n| (0..count_t(n, 5)).filter_map(move |i| decode_t(n, &GRID5, i, 1, 2, true))).collect();
    let right: Vec<Vec<Kf>> = (1..=1usize).flat_map(|n| (0..count_t(n, 5)).filter_map(move |i| decode_t(n, &GRID5, i, 1, 2, true))).collect();
    let tpairs = [(0usize, 1usize), (3, 4), (2, 5), (6, 8)];
    let vs = vstar();
    let macc = par_fold(
        left.len(),
        Acc::default,
        |i, acc| {
            for (j, r) in right.iter().enumerate() {
                for (tp, &(t1, t2)) in tpairs.iter().enumerate() {
                    let s1 = TlSpec { kfs: left[i].clone(), default_easing: 0, timing: thetas[t1] };
                    let s2 = TlSpec { kfs: r.clone(), default_easing: 3, timing: thetas[t2] };
                    let twin = MergedTimeline::of([s1.build(), s2.build()]);
                    let mut m = twin.clone();
                    m.start_with(&vs);
                    acc.timelines += 1;
                    let (r1, r2) = (RefTl::new(&s1), RefTl::new(&s2));
                    let mind = s1.timing.delay.min(s2.timing.delay);
                    let rank = (1u64 << 60) | (i as u64) << 20 | (j as u64) << 4 | tp as u64;
                    for &t in grids[t1].iter().chain(grids[t2].iter()) {
                        let mut got = init.clone();
                        m.update(&mut got, t);
                        let mut tw = init.clone();
                        twin.update(&mut tw, t);
                        acc.evals += 1;
                        let mk = || json!({"merged": [s1.to_json(), s2.to_json()], "start_with": vs.to_json(), "time": fj(t)});
                        if t <= mind {
                            acc.exact_start += 1;
                            if (r1.a.defined() || r2.a.defined()) && got.a.to_bits() != vs.a.to_bits() {
                                acc.sink.add("merged:upto-delay:a-not-start-value", rank, || (format!("t={t}: a={} start {}", got.a, vs.a), mk()));
                            }
                            if (r1.k.defined() || r2.k.defined()) && got.k != vs.k {
                                acc.sink.add("merged:upto-delay:k-not-start-value", rank, || (format!("t={t}: k={} start {}", got.k, vs.k), mk()));
                            }
                        } else if !ref_phase(&s1.timing, t).start_override_in_force() && !ref_phase(&s2.timing, t).start_override_in_force() {
                            acc.twin_equal += 1;
                            if got.bits() != tw.bits() {
                                acc.sink.add("merged:after-first-pass:differs-from-twin", rank, || (format!("t={t}: {:?} vs twin {:?}", got, tw), mk()));
                            }
                        }
                    }
                }
            }
        },
        |a, b| {
            a.sink.merge(b.sink);
            a.timelines += b.timelines;
            a.evals += b.evals;
            a.exact_start += b.exact_start;
            a.twin_equal += b.twin_equal;
        },
    );
    acc.sink.merge(macc.sink);
    acc.timelines += macc.timelines;
    acc.evals += macc.evals;
    acc.exact_start += macc.exact_start;
    acc.twin_equal += macc.twin_equal;
    acc.sink.merge(tied.sink);
    acc.timelines += tied.timelines;
    acc.evals += tied.evals;
    acc.twin_equal += tied.twin_equal;
    let mut cov = Map::new();
    cov.insert("states".into(), json!(acc.timelines));
    cov.insert("transitions".into(), json!(acc.evals));
    cov.insert("traces_validated_against_impl".into(), json!(acc.evals));
    cov.insert("evaluations".into(), json!(acc.evals));
    cov.insert("distinct_nontrivial".into(), json!(acc.exact_start + acc.twin_equal + acc.first_segment));
    cov.insert("rule".into(), json!(format!("keyframe lists of size 0..={nmax} (per-property distinct positions) x 13 timings (repeat None/Times/Infinite, with and without reverse, delays 0,1/4,1/2) x 4 start values (far away, Default, equal to the 0% value, large odd numbers 2^23+1 / -(2^23+1) / 2^24-1 that f32 holds exactly; in every other case preceded by an earlier, different start_with) x time grid with 64 points per cycle; twin = same build without start_with; clauses: t<=delay => exactly v (bit-equal) [{}], first forward pass before the property's second frame => RefCss with the 0% value replaced by v [{}], everything else (beyond the second frame, reverse pass, later cycles, after the end) bit-equal to the twin [{}]; plus merged pairs; plus a family with keyframes of one property TIED at 0% (the stretch to the next keyframe is empty: strictly after 0% everything is bit-equal to the twin)", acc.exact_start, acc.first_segment, acc.twin_equal)));
    cov.insert("exhaustive".into(), json!(true));
    cov.insert("samples".into(), json!(acc.samples));
    run.finish(acc.sink, cov, vec!["loop-state flags at pass boundaries are pinned by C03".into()])
}

pub fn replay(case: &Value) -> bool {
    if !case["merged"].is_null() {
        println!("merged case: {}", case);
        return false;
    }
    let (spec, start, t, init) = case_from_json(case);
    let st = start.unwrap_or_default();
    let rt = RefTl::new(&spec);
    let twin = spec.build();
    let mut tls = twin.clone();
    tls.start_with(&st);
    let mut acc = Acc::default();
    check_case(&spec, &rt, &tls, &twin, &st, t, &init, 0, &mut acc);
    clone_clause(&spec, &tls, &twin, &st, &[t], &init, 0, &mut acc);
    println!("with start {:?}\ntwin {:?}", eval_real(&tls, t, &init), eval_real(&twin, t, &init));
    for (s, v) in &acc.sink.map {
        println!("{s}: {}", v.desc);
    }
    acc.sink.map.is_empty()
}
