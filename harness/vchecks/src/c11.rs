//! C11 — insertion order of keyframes does not matter: all permutations vs the ascending build.

use crate::common::*;
use mina::prelude::*;
use serde_json::{json, Map, Value};
use vlib::spec::*;
use vlib::util::*;

const GRID9: [f32; 9] = [0.0, 0.125, 0.25, 0.375, 0.5, 0.625, 0.75, 0.875, 1.0];
/// Positions closer together than one percent (and than one f32 step of common quantisations).
const DENSE9: [f32; 9] = [0.0, 0.125, 0.126, 0.129, 0.131, 0.5, 0.501, 0.999, 1.0];

/// Positions outside the documented [0,1] range (the builder accepts them without complaint): whatever
/// the library makes of them must still not depend on the insertion order.
const OUT9: [f32; 9] = [-0.5, 0.0, 0.25, 0.5, 0.75, 1.0, 1.25, 1.5, 3.0];

#[derive(Default)]
struct Acc {
    sink: VSink,
    timelines: u64,
    evals: u64,
    perms_differing_order: u64,
    skipped_base_panics: u64,
    samples: Vec<Value>,
    outcomes: std::collections::HashSet<u64>,
}

fn meta(tl: &PTimeline) -> (u32, u32, u32, Repeat) {
    (tl.delay().to_bits(), tl.duration().to_bits(), tl.cycle_duration().map(|c| c.to_bits()).unwrap_or(u32::MAX), tl.repeat())
}

fn subsets(n: usize, k: usize) -> Vec<Vec<usize>> {
    fn rec(start: usize, n: usize, k: usize, cur: &mut Vec<usize>, out: &mut Vec<Vec<usize>>) {
        if cur.len() == k {
            out.push(cur.clone());
            return;
        }
        for i in start..n {
            cur.push(i);
            rec(i + 1, n, k, cur, out);
            cur.pop();
        }
    }
    let mut out = vec![];
    rec(0, n, k, &mut vec![], &mut out);
    out
}

/// Keyframe content patterns per list (property subset + easing per keyframe), a fixed family
/// cycling through all 12 per-keyframe choices.
fn decorate(positions: &[f32], pattern: usize) -> Vec<Kf> {
    positions
        .iter()
        .enumerate()
        .map(|(i, &p)| {
            let c = (pattern + i * 5 + i * i) % 12;
            let subset = [3usize, 1, 2, 3, 1, 3, 2, 3, 0, 3, 1, 2][c];
            let e = c % 3;
            Kf {
                pos: p,
                a: if subset & 1 != 0 { Some(A_VALUES[i % 6]) } else { None },
                k: if subset & 2 != 0 { Some(K_VALUES[i % 6]) } else { None },
                d: None,
                easing: [None, Some(1u8), Some(2u8)][e],
            }
        })
        .collect()
}


/// Wide family: the 2^j+1-keyframe timelines of common.rs inserted in structured non-identity orders
/// (reversed, rotated by one third, even-then-odd, bit-reversed, two adjacent swapped, blocks of 7 reversed)
/// against the ascending insertion; every keyframe position and segment midpoint. Sorting shortcuts that only
/// hold for short or nearly sorted lists show up here.
fn wide_pass(thorough: bool, acc: &mut Acc) -> Vec<u32> {
    let js: Vec<u32> = if thorough { vec![3, 4, 5, 6, 7, 8, 9, 10, 12, 16] } else { vec![5, 8, 12] };
    let init = P::sentinel();
    let vs = vstar();
    let items: Vec<(u32, u8, usize)> = js.iter().flat_map(|&j| (0..2u8).flat_map(move |p| (0..2usize).map(move |ti| (j, p, ti)))).collect();
    let r = par_fold(
        items.len(),
        Acc::default,
        |i, acc| {
            let (j, pattern, ti) = items[i];
            let th = wide_timings()[ti];
            let base_spec = wide_spec(j, pattern, th);
            let n = base_spec.kfs.len();
            let base = base_spec.build();
            let mut base_s = base.clone();
            base_s.start_with(&vs);
            let times: Vec<f32> = wide_positions(j).flat_map(|q| wide_times(&th, q)).collect();
            let want: Vec<[u64; 5]> = times.iter().map(|&t| eval_real(&base, t, &init).bits()).collect();
            let want_s: Vec<[u64; 5]> = times.iter().map(|&t| eval_real(&base_s, t, &init).bits()).collect();
            let bm = meta(&base);
            acc.timelines += 1;
            let bits = usize::BITS - (n - 1).leading_zeros();
            let orders: Vec<(&str, Vec<usize>)> = vec![
                ("reversed", (0..n).rev().collect()),
                ("rotated", (0..n).map(|k| (k + n / 3) % n).collect()),
                ("even-then-odd", (0..n).step_by(2).chain((1..n).step_by(2)).collect()),
                ("bit-reversed", {
                    let mut v: Vec<usize> = (0..n - 1).map(|k| k.reverse_bits() >> (usize::BITS - bits + 1)).collect();
                    v.push(n - 1);
                    v
                }),
                ("one-adjacent-swap", {
                    let mut v: Vec<usize> = (0..n).collect();
                    v.swap(n / 2, n / 2 + 1);
                    v
                }),
                ("blocks-of-7-reversed", (0..n).map(|k| { let b = k / 7 * 7; let e = (b + 7).min(n); b + (e - 1 - k) }).collect()),
            ];
            for (oi, (oname, order)) in orders.iter().enumerate() {
                let mut seen = vec![false; n];
                for &k in order {
                    seen[k] = true;
                }
                assert!(seen.iter().all(|&b| b), "not a permutation: {oname}");
                acc.perms_differing_order += 1;
                let spec = TlSpec { kfs: order.iter().map(|&k| base_spec.kfs[k].clone()).collect(), ..base_spec.clone() };
                let tl = if oi % 2 == 0 {
                    let cfg = spec.builder();
                    let t = cfg.clone().delay_seconds(th.delay).build();
                    drop(cfg);
                    t
                } else {
                    spec.build()
                };
                let mut tls = tl.clone();
                tls.start_with(&vs);
                acc.timelines += 1;
                let rank = (1u64 << 60) | (j as u64) << 48 | (oi as u64) << 24 | i as u64;
                if meta(&tl) != bm {
                    acc.sink.add("metadata-differs", rank, || (format!("metadata depends on insertion order ({oname}, {n} keyframes)"), json!({"timeline": spec.to_json()})));
                }
                for (gi, &t) in times.iter().enumerate() {
                    acc.evals += 2;
                    if try_eval_real(&tl, t, &init).map(|g| g.bits()) != Some(want[gi]) {
                        acc.sink.add("values-differ", rank, || (format!("t={t}: {n} keyframes inserted in {oname} order give {:?}, ascending build gives {:?}", try_eval_real(&tl, t, &init), eval_real(&base, t, &init)), case_json(&spec, None, t, &init)));
                        break;
                    }
                    if try_eval_real(&tls, t, &init).map(|g| g.bits()) != Some(want_s[gi]) {
                        acc.sink.add("values-differ-after-start_with", rank, || (format!("t={t}: {n} keyframes inserted in {oname} order, after start_with, differ from the ascending build"), case_json(&spec, Some(&vs), t, &init)));
                        break;
                    }
                }
            }
        },
        |a, b| {
            a.sink.merge(b.sink);
            a.timelines += b.timelines;
            a.evals += b.evals;
            a.perms_differing_order += b.perms_differing_order;
        },
    );
    acc.sink.merge(r.sink);
    acc.timelines += r.timelines;
    acc.evals += r.evals;
    acc.perms_differing_order += r.perms_differing_order;
    js
}

pub fn run(run: Run) -> ! {
    let nmax = if run.is_thorough() { 9 } else { 6 };
    let npat = if run.is_thorough() { 12 } else { 6 };
    let mut thetas = theta();
    // a delay that is huge relative to the cycle (absolute keyframe times of neighbouring positions collide in f32)
    thetas.push(Timing::new(0.25, 4096.0, Rep::None, false));
    thetas.push(Timing::new(3.0, 65536.0, Rep::Times(1), true));
    let grids: Vec<Vec<f32>> = thetas.iter().map(|th| tau(th, 32)).collect();
    let init = P::sentinel();
    let vs = vstar();
    // work items: (position subset, pattern)
    // work items: (position subset, pattern); pattern >= 100 selects the dense grid
    let mut items: Vec<(Vec<usize>, usize)> = vec![];
    for n in 1..=nmax {
        for s in subsets(9, n) {
            for pat in 0..npat {
                items.push((s.clone(), pat));
            }
            for pat in 0..(npat / 2).max(2) {
                items.push((s.clone(), 100 + pat));
            }
            // out-of-range grid: only subsets that contain an out-of-range position
            if n <= nmax.min(6) && s.iter().any(|&j| j == 0 || j >= 6) {
                for pat in 0..2 {
                    items.push((s.clone(), 200 + pat));
                }
            }
        }
    }
    let perms: Vec<Vec<Vec<usize>>> = (0..=nmax).map(permutations).collect();
    let acc = par_fold(
        items.len(),
        Acc::default,
        |i, acc| {
            let (sub, pat) = &items[i];
            let grid: &[f32; 9] = if *pat >= 200 { &OUT9 } else if *pat >= 100 { &DENSE9 } else { &GRID9 };
            let positions: Vec<f32> = sub.iter().map(|&j| grid[j]).collect();
            let n = positions.len();
            let asc = decorate(&positions, *pat);
            let ti = i % thetas.len();
            let th = thetas[ti];
            let base_spec = TlSpec { kfs: asc.clone(), default_easing: if pat % 2 == 0 { 0 } else { 3 }, timing: th };
            // (out-of-range family: if the library refuses such keyframes by panicking in the ascending build or
            // evaluation, there is nothing to compare)
            let Ok((base, base_s, want, want_s)) = std::panic::catch_unwind(std::panic::AssertUnwindSafe(|| {
                let base = base_spec.build();
                let mut base_s = base.clone();
                base_s.start_with(&vs);
                let want: Vec<[u64; 5]> = grids[ti].iter().map(|&t| eval_real(&base, t, &init).bits()).collect();
                let want_s: Vec<[u64; 5]> = grids[ti].iter().map(|&t| eval_real(&base_s, t, &init).bits()).collect();
                (base, base_s, want, want_s)
            })) else {
                acc.skipped_base_panics += 1;
                return;
            };
            let _ = &base_s;
            for w in &want {
                if acc.outcomes.len() < 4096 {
                    acc.outcomes.insert(w[0] ^ (w[1] << 32));
                }
            }
            let bm = meta(&base);
            acc.timelines += 1;
            for (pi, perm) in perms[n].iter().enumerate() {
                if pi == 0 {
                    continue; // identity = the ascending build itself
                }
                acc.perms_differing_order += 1;
                let spec = TlSpec { kfs: perm.iter().map(|&j| asc[j].clone()).collect(), ..base_spec.clone() };
                let rank = (n as u64) << 48 | (pi as u64) << 24 | (i as u64 & 0xffffff);
                let Ok((tl, tls)) = std::panic::catch_unwind(std::panic::AssertUnwindSafe(|| {
                    // every other permutation is built from a clone of the configuration while the original
                    // configuration is still alive (a template configuration reused for several timelines)
                    // ... and the settings (duration, delay, repeat, reverse, default easing) are made before, after
                    // or between the keyframe calls
                    let tl = if pi % 2 == 1 {
                        let cfg = spec.builder_ordered((pi / 2 % 4) as u8);
                        let t = cfg.clone().build();
                        drop(cfg);
                        t
                    } else {
                        spec.builder_ordered((pi / 2 % 4) as u8).build()
                    };
                    let mut tls = tl.clone();
                    tls.start_with(&vs);
                    (tl, tls)
                })) else {
                    acc.sink.add("build-panics-for-permuted-order", rank, || (format!("building with insertion order {perm:?} panics, the ascending order does not"), json!({"timeline": spec.to_json()})));
                    continue;
                };
                acc.timelines += 1;
                if meta(&tl) != bm {
                    acc.sink.add("metadata-differs", rank, || ("metadata depends on insertion order".into(), json!({"timeline": spec.to_json()})));
                }
                for (gi, &t) in grids[ti].iter().enumerate() {
                    acc.evals += 2;
                    let g = try_eval_real(&tl, t, &init).map(|g| g.bits());
                    if g != Some(want[gi]) {
                        acc.sink.add("values-differ", rank, || {
                            (
                                format!("t={t}: permuted insertion {:?} gives {:?}, ascending build gives {:?}", perm, try_eval_real(&tl, t, &init), eval_real(&base, t, &init)),
                                case_json(&spec, None, t, &init),
                            )
                        });
                    }
                    let g = try_eval_real(&tls, t, &init).map(|g| g.bits());
                    if g != Some(want_s[gi]) {
                        acc.sink.add("values-differ-after-start_with", rank, || {
                            (format!("t={t}: permuted insertion {:?} after start_with differs from ascending build", perm), case_json(&spec, Some(&vs), t, &init))
                        });
                    }
                }
                if acc.samples.len() < 2 && n == nmax && pi == 17 && pat == &1 {
                    acc.samples.push(json!({"permutation": perm, "timeline": spec.to_json(), "times": grids[ti].len()}));
                }
            }
        },
        |a, b| {
            a.sink.merge(b.sink);
            a.timelines += b.timelines;
            a.evals += b.evals;
            a.perms_differing_order += b.perms_differing_order;
            a.skipped_base_panics += b.skipped_base_panics;
            a.outcomes.extend(b.outcomes);
            if a.samples.len() < 3 {
                a.samples.extend(b.samples);
            }
        },
    );
    let mut acc = acc;
    let wide_js = wide_pass(run.is_thorough(), &mut acc);
    let mut cov = Map::new();
    cov.insert("wide_family_keyframe_counts".into(), json!(wide_js.iter().map(|j| (1u64 << j) + 1).collect::<Vec<_>>()));
    cov.insert("states".into(), json!(acc.timelines));
    cov.insert("transitions".into(), json!(acc.evals));
    cov.insert("traces_validated_against_impl".into(), json!(acc.evals));
    cov.insert("evaluations".into(), json!(acc.evals));
    cov.insert("distinct_nontrivial".into(), json!(acc.perms_differing_order));
    cov.insert("rule".into(), json!(format!("every subset of 1..={nmax} distinct positions from {{0,1/8,..,1}} and from a dense grid {{0,.125,.126,.129,.131,.5,.501,.999,1}} (positions closer than 1%), and - for up to 6 keyframes - from a grid with positions outside [0,1] {{-.5,0,.25,.5,.75,1,1.25,1.5,3}} x {npat} (+{}) content patterns (property subsets, per-keyframe easings) x ALL permutations of the insertion order (timing configuration cycled over the 6 of Theta and two with a delay 16384 / 21845 times the cycle) x {{plain, start_with}} x time grid; plus a WIDE family (2^j+1 keyframes, counts under wide_family_keyframe_counts, two property patterns, two timings) inserted in six structured orders (reversed, rotated, even-then-odd, bit-reversed, one adjacent swap, blocks of 7 reversed) at every keyframe position and segment midpoint; every other permuted timeline is built from a clone of its configuration while the original is alive, and the settings are made before / after / between the keyframe calls (4 placements rotating over the permutations); oracle: values bit-identical and metadata identical to the ascending-order build; non-trivial = non-identity permutations checked", (npat / 2).max(2))));
    cov.insert("out_of_range_items_skipped_because_the_ascending_build_panics".into(), json!(acc.skipped_base_panics));
    cov.insert("exhaustive".into(), json!(true));
    cov.insert("distinct_observed_outcomes_capped".into(), json!(acc.outcomes.len()));
    cov.insert("samples".into(), json!(acc.samples));
    run.finish(acc.sink, cov, vec!["relational oracle: the implementation is compared with itself (ascending build); C01 binds the ascending build to the reference".into()])
}

pub fn replay(case: &Value) -> bool {
    let (spec, start, t, init) = case_from_json(case);
    let mut sorted = spec.clone();
    sorted.kfs.sort_by(|a, b| a.pos.total_cmp(&b.pos));
    let mut tl = spec.build();
    let mut base = sorted.build();
    if let Some(s) = &start {
        tl.start_with(s);
        base.start_with(s);
    }
    let g = eval_real(&tl, t, &init);
    let w = eval_real(&base, t, &init);
    println!("permuted build {:?}\nascending build {:?}", g, w);
    g.bits() == w.bits()
}
