//! E2 — history explorer for the state animator (C04, C05, C06, C07, and C08 part ii).
//!
//! A state *is* the history: the real animator is rebuilt and the history replayed (it is neither
//! Clone nor hashable). All histories up to depth D over the alphabet are enumerated; the
//! property's clauses are evaluated on the last operation of every history (every prefix is itself
//! an enumerated history, so every operation of every history is checked exactly once). A
//! deviation-bounded pass reaches longer horizons.

use mina::prelude::*;
use serde_json::{json, Map, Value};
use std::time::Duration;
use vlib::model::*;
use vlib::spec::*;
use vlib::util::*;

pub type Anim = EnumStateAnimator<S4, PTimeline>;

#[derive(Clone, Copy, Debug, PartialEq)]
pub enum Op {
    Adv(f32),
    Set(S4),
}

impl Op {
    pub fn name(&self) -> String {
        match self {
            Op::Adv(d) => format!("advance({d:?})"),
            Op::Set(s) => format!("set_state({s:?})"),
        }
    }
    fn to_json(&self) -> Value {
        match self {
            Op::Adv(d) => json!({"advance": fj(*d)}),
            Op::Set(s) => json!({"set_state": format!("{s:?}")}),
        }
    }
    fn from_json(v: &Value) -> Op {
        if !v["advance"].is_null() {
            Op::Adv(jf(&v["advance"]))
        } else {
            let s = v["set_state"].as_str().unwrap_or("X");
            Op::Set(*S4_ALL.iter().find(|x| format!("{x:?}") == s).unwrap_or(&S4::X))
        }
    }
}

// ------------------------------------------------------------------------------------------------
// Pool of timeline shapes

fn kf(pos: f32, a: Option<f32>, k: Option<i32>, d: Option<f64>, e: Option<u8>) -> Kf {
    Kf { pos, a, k, d, easing: e }
}

/// 22 shapes; `variant` 0 uses Linear/custom polynomial easings, 1 uses built-in Bezier easings
/// (Ease / InOutCubic / OutBack) in the same places.
pub fn pool(variant: u8) -> Vec<(&'static str, Vec<TlSpec>)> {
    if variant == 2 {
        return nondyadic_pool();
    }
    let e = |i: u8| -> u8 {
        if variant == 0 {
            i
        } else {
            match i {
                0 => 4, // Ease
                1 => 5, // InOutCubic
                _ => 3, // OutBack
            }
        }
    };
    let t = Timing::new;
    let one = |kfs: Vec<Kf>, de: u8, tm: Timing| TlSpec { kfs, default_easing: de, timing: tm };
    vec![
        ("finite", vec![one(vec![kf(0.0, Some(-64.0), Some(-100), Some(1.5), None), kf(1.0, Some(96.0), Some(250), Some(-2.25), None)], e(0), t(1.0, 0.0, Rep::None, false))]),
        ("to-only", vec![one(vec![kf(1.0, Some(400.0), Some(7), None, None)], e(0), t(1.0, 0.0, Rep::None, false))]),
        ("mid-keyframe-only", vec![one(vec![kf(0.5, Some(16.0), Some(64), None, Some(e(1)))], e(0), t(2.0, 0.0, Rep::None, false))]),
        ("delayed", vec![one(vec![kf(0.0, Some(200.0), None, None, None), kf(1.0, Some(-8.0), None, None, None)], e(2), t(1.0, 0.5, Rep::None, false))]),
        // (the 0% keyframe carries its own easing: the blended first segment uses it, not the default easing)
        ("times-1", vec![one(vec![kf(0.0, None, Some(1000), None, Some(e(1))), kf(1.0, None, Some(-31), None, None)], e(0), t(0.5, 0.0, Rep::Times(1), false))]),
        ("reversing", vec![one(vec![kf(0.0, Some(-64.0), None, None, None), kf(0.5, Some(96.0), None, None, Some(e(2))), kf(1.0, Some(16.0), None, None, None)], e(0), t(1.0, 0.0, Rep::None, true))]),
        ("infinite", vec![one(vec![kf(0.0, Some(0.0), Some(0), None, None), kf(1.0, Some(128.0), Some(100), None, None)], e(0), t(1.0, 0.0, Rep::Infinite, false))]),
        ("infinite-reversing-delayed", vec![one(vec![kf(0.25, Some(32.0), None, None, Some(e(1))), kf(1.0, Some(-32.0), None, None, None)], e(0), t(1.0, 0.25, Rep::Infinite, true))]),
        (
            "merged-finite+infinite-disjoint",
            vec![
                one(vec![kf(0.0, Some(10.0), None, None, None), kf(1.0, Some(20.0), None, None, None)], e(0), t(1.0, 0.0, Rep::None, false)),
                one(vec![kf(0.0, None, Some(-50), None, None), kf(1.0, None, Some(50), None, None)], e(1), t(0.5, 0.0, Rep::Infinite, false)),
            ],
        ),
        (
            "merged-overlapping",
            vec![
                one(vec![kf(0.0, Some(-16.0), Some(3), None, None), kf(1.0, Some(48.0), Some(33), None, None)], e(0), t(1.0, 0.0, Rep::None, false)),
                one(vec![kf(0.5, Some(256.0), None, None, Some(e(2))), kf(1.0, Some(-256.0), None, None, None)], e(0), t(2.0, 0.5, Rep::None, false)),
            ],
        ),
        ("partial-k-d", vec![one(vec![kf(0.0, None, Some(5), Some(0.5), None), kf(0.75, None, Some(505), Some(8.0), Some(e(1)))], e(2), t(1.0, 0.0, Rep::None, false))]),
        ("empty-merged-list", vec![]),
        ("infinite-delay-equals-cycle", vec![one(vec![kf(0.0, Some(-20.0), Some(-200), None, None), kf(1.0, Some(60.0), Some(300), None, None)], e(0), t(0.5, 0.5, Rep::Infinite, false))]),
        ("times-2-delayed", vec![one(vec![kf(0.0, Some(5.0), None, None, None), kf(0.5, Some(45.0), None, None, Some(e(1))), kf(1.0, Some(-15.0), None, None, None)], e(0), t(0.5, 0.25, Rep::Times(2), false))]),
        // components that share one cycle length (so the merged timeline reports a cycle duration) but differ in
        // repeat count and delay: an endless one, and a delayed Times(1) reversing one that ends after 1.25 s
        (
            "merged-infinite+times-1-same-cycle",
            vec![
                one(vec![kf(0.0, Some(8.0), None, None, None), kf(1.0, Some(72.0), None, None, None)], e(0), t(0.5, 0.0, Rep::Infinite, false)),
                one(vec![kf(0.0, None, Some(20), None, None), kf(1.0, None, Some(50), None, None)], e(0), t(0.5, 0.25, Rep::Times(1), true)),
            ],
        ),
        // the component with the larger repeat count is over long before the non-repeating one
        (
            "merged-short-times-2+long-once",
            vec![
                one(vec![kf(0.0, Some(-4.0), None, None, None), kf(1.0, Some(12.0), None, None, None)], e(0), t(0.25, 0.0, Rep::Times(2), false)),
                one(vec![kf(0.0, None, Some(0), None, None), kf(1.0, None, Some(400), None, None)], e(1), t(2.0, 0.0, Rep::None, false)),
            ],
        ),
        // a property keyed only in the 0% keyframe (its single frame is both the start frame and the last frame)
        ("k-only-at-0%", vec![one(vec![kf(0.0, Some(-10.0), Some(77), Some(4.5), None), kf(1.0, Some(50.0), None, None, None)], e(1), t(1.0, 0.0, Rep::None, false))]),
        // 17 keyframes over 16 s (zig-zag values): a single long frame jumps over many keyframes
        ("seventeen-keyframes-16s", vec![one((0..=16).map(|i| kf(i as f32 / 16.0, Some(((i * 37) % 64) as f32 * 4.0 - 100.0), if i % 3 == 0 { Some((i as i32 * 53) % 200 - 100) } else { None }, None, None)).collect(), e(0), t(16.0, 0.0, Rep::None, false))]),
        // a very slow eased timeline: one 2^-9 s step moves the position by less than f32::EPSILON
        ("slow-eased-32768s", vec![one(vec![kf(0.0, Some(0.0), Some(0), None, None), kf(1.0, Some(1000.0), Some(1_000_000), None, None)], e(1), t(32768.0, 0.0, Rep::None, false))]),
        // timelines without any keyframe still have a duration: the state counts as animated until it is over
        ("keyframe-less-2s", vec![one(vec![], e(0), t(2.0, 0.0, Rep::None, false))]),
        (
            "merged-finite+keyframe-less-longer",
            vec![
                one(vec![kf(0.0, Some(1.0), Some(1), None, None), kf(1.0, Some(9.0), Some(9), None, None)], e(0), t(0.5, 0.0, Rep::None, false)),
                one(vec![], e(0), t(1.0, 0.25, Rep::Times(1), false)),
            ],
        ),
        // two keyframes at 100%: the approach goes towards the first, the end position shows the second
        ("tied-at-100%", vec![one(vec![kf(0.0, Some(0.0), Some(0), None, None), kf(1.0, Some(16.0), Some(8), None, None), kf(1.0, Some(-4.0), None, None, None)], e(0), t(4.0, 0.0, Rep::None, false))]),
        // negative delay: the animation is already half-way through when the state is entered (entering it
        // legitimately moves the values at once, so this shape is left out of the C04 no-jump runs)
        ("negative-delay", vec![one(vec![kf(0.0, Some(40.0), Some(-40), None, None), kf(1.0, Some(120.0), Some(80), None, None)], e(0), t(1.0, -0.5, Rep::None, false))]),
    ]
}

#[derive(Clone, Debug)]
pub struct RefShape {
    comps: Vec<RefTl>,
    /// None = infinite
    total: Option<f64>,
}

impl RefShape {
    fn new(specs: &[TlSpec]) -> RefShape {
        let comps: Vec<RefTl> = specs.iter().map(RefTl::new).collect();
        let mut total = Some(0.0f64);
        for s in specs {
            match (total, s.timing.total()) {
                (Some(t), Some(x)) => total = Some(t.max(x)),
                _ => total = None,
            }
        }
        RefShape { comps, total }
    }

    /// Values the merged timeline writes at `t`, started from `entry`.
    fn eval(&self, t: f32, entry: &P) -> RefOut {
        let mut out = RefOut { a: RV::Untouched, k: RV::Untouched, d: RV::Untouched };
        for c in &self.comps {
            let o = c.eval(t, Some(entry));
            if o.a != RV::Untouched {
                out.a = o.a;
            }
            if o.k != RV::Untouched {
                out.k = o.k;
            }
            if o.d != RV::Untouched {
                out.d = o.d;
            }
        }
        out
    }

    fn scale(&self, entry: &P) -> (f64, f64, f64) {
        let mut s = (entry.a.abs() as f64, (entry.k as f64).abs(), entry.d.abs());
        for c in &self.comps {
            s.0 = s.0.max(c.a.scale);
            s.1 = s.1.max(c.k.scale);
            s.2 = s.2.max(c.d.scale);
        }
        s
    }
}

pub struct Config {
    pub xi: usize,
    pub yi: usize,
    pub variant: u8,
    pub specs: [Vec<TlSpec>; 2],
    pub merged: [MergedTimeline<PTimeline>; 2],
    pub shapes: [RefShape; 2],
    pub names: [&'static str; 2],
    /// optional third animated state: when set, U2 carries this pool shape (histories A -> B -> C -> A)
    pub zi: Option<usize>,
    pub zspecs: Vec<TlSpec>,
    pub zmerged: Option<MergedTimeline<PTimeline>>,
    pub zshape: Option<RefShape>,
}

pub fn initial_values() -> P {
    P { a: 3.0, k: -3, d: 0.375, u: 11.0, z: 22.0 }
}

impl Config {
    pub fn new(xi: usize, yi: usize, variant: u8) -> Config {
        Self::with_third(xi, yi, variant, None)
    }

    pub fn with_third(xi: usize, yi: usize, variant: u8, zi: Option<usize>) -> Config {
        let p = pool(variant);
        let mk = |i: usize| MergedTimeline::of(p[i].1.iter().map(|s| s.build()).collect::<Vec<_>>());
        Config {
            xi,
            yi,
            variant,
            specs: [p[xi].1.clone(), p[yi].1.clone()],
            merged: [mk(xi), mk(yi)],
            shapes: [RefShape::new(&p[xi].1), RefShape::new(&p[yi].1)],
            names: [p[xi].0, p[yi].0],
            zi,
            zspecs: zi.map(|z| p[z].1.clone()).unwrap_or_default(),
            zmerged: zi.map(mk),
            zshape: zi.map(|z| RefShape::new(&p[z].1)),
        }
    }

    pub fn build(&self, init_state: S4) -> Anim {
        // all three `TimelineOrBuilder` entry points: a MergedTimeline, a built timeline, an unbuilt configuration
        // (single-component shapes alternate between the latter two by easing variant)
        let mut b = StateAnimatorBuilder::<S4, PTimeline>::new().from_state(init_state).from_values(initial_values());
        // in every third configuration X is first registered with Y's timeline: a later `on` for the same state
        // replaces the earlier one (documented: "the most recent timelines being used")
        if (self.xi + self.yi) % 3 == 0 {
            b = b.on(S4::X, self.merged[1].clone());
        }
        for (i, st) in [S4::X, S4::Y].into_iter().enumerate() {
            b = if self.specs[i].len() == 1 {
                if (self.variant as usize + i) % 2 == 0 { b.on(st, self.specs[i][0].builder()) } else { b.on(st, self.specs[i][0].build()) }
            } else {
                b.on(st, self.merged[i].clone())
            };
        }
        match &self.zmerged {
            Some(z) => b.on(S4::U2, z.clone()).build(),
            None => b.build(),
        }
    }

    fn shape(&self, s: S4) -> Option<&RefShape> {
        match s {
            S4::X => Some(&self.shapes[0]),
            S4::Y => Some(&self.shapes[1]),
            S4::U2 => self.zshape.as_ref(),
            _ => None,
        }
    }

    pub fn to_json(&self) -> Value {
        json!({"X": {"shape": self.names[0], "pool_index": self.xi, "components": self.specs[0].iter().map(|s| s.to_json()).collect::<Vec<_>>()},
               "Y": {"shape": self.names[1], "pool_index": self.yi, "components": self.specs[1].iter().map(|s| s.to_json()).collect::<Vec<_>>()},
               "U1": "no timeline", "U2": match self.zi { Some(z) => json!({"pool_index": z, "components": self.zspecs.iter().map(|s| s.to_json()).collect::<Vec<_>>()}), None => json!("no timeline") }, "easing_variant": self.variant, "initial_values": initial_values().to_json()})
    }
}

// ------------------------------------------------------------------------------------------------
// Observation of the real animator and the reference animator

#[derive(Clone, Debug, PartialEq)]
pub struct Obs {
    pub state: S4,
    pub values: P,
    pub ended: bool,
    pub time: Duration,
    pub paused: Option<(S4, Duration)>,
}

pub fn observe(a: &Anim) -> Obs {
    Obs { state: *a.current_state(), values: a.current_values().clone(), ended: a.is_ended(), time: a.verif_time_in_state(), paused: a.verif_paused() }
}

pub fn apply(a: &mut Anim, op: &Op) {
    match op {
        Op::Adv(d) => a.advance(*d),
        Op::Set(s) => a.set_state(s),
    }
}

/// RefAnimator: the documented rules of C05.
#[derive(Clone, Debug)]
pub struct RefAnim {
    pub cur: S4,
    pub t: Duration,
    pub paused: Option<(S4, Duration)>,
    /// values held when each state's current run was entered
    pub entry: [Option<P>; 4],
}

fn sidx(s: S4) -> usize {
    S4_ALL.iter().position(|x| *x == s).unwrap()
}

impl RefAnim {
    pub fn new(init_state: S4) -> RefAnim {
        let mut entry = [None, None, None, None];
        entry[sidx(init_state)] = Some(initial_values());
        RefAnim { cur: init_state, t: Duration::ZERO, paused: None, entry }
    }

    /// Steps the model. `values_now` are the values the real animator holds at the moment of the
    /// call (entry values of a new blend are *observed*, C04 separately asserts they do not jump).
    pub fn step(&mut self, cfg: &Config, op: &Op, values_now: &P) {
        match op {
            Op::Adv(d) => {
                self.t = self.t.saturating_add(Duration::try_from_secs_f32(*d).unwrap_or(Duration::MAX));
            }
            Op::Set(s) => {
                if *s == self.cur {
                    return;
                }
                let was = cfg.shape(self.cur).is_some();
                let will = cfg.shape(*s).is_some();
                match self.paused {
                    Some((ps, pt)) if ps == *s => {
                        // resume exactly where it was frozen
                        self.t = pt;
                        self.paused = None;
                    }
                    _ => {
                        if was && !will {
                            self.paused = Some((self.cur, self.t));
                        } else if will {
                            // entering any other animated state discards the remembered position
                            self.paused = None;
                        }
                        if will {
                            self.entry[sidx(*s)] = Some(values_now.clone());
                        }
                        self.t = Duration::ZERO;
                    }
                }
                self.cur = *s;
            }
        }
    }

    pub fn ended(&self, cfg: &Config) -> bool {
        match cfg.shape(self.cur) {
            None => true,
            Some(sh) => match sh.total {
                None => false,
                Some(total) => self.t.as_secs_f32() as f64 >= total,
            },
        }
    }

    /// Reference values for the current state at the current time.
    pub fn expect(&self, cfg: &Config) -> Option<(RefOut, (f64, f64, f64))> {
        let sh = cfg.shape(self.cur)?;
        let entry = self.entry[sidx(self.cur)].as_ref()?;
        Some((sh.eval(self.t.as_secs_f32(), entry), sh.scale(entry)))
    }
}

// ------------------------------------------------------------------------------------------------
// Clauses

#[derive(Clone, Copy, PartialEq, Eq, Debug)]
pub enum Prop {
    C04,
    C05,
    C06,
    C07,
}

#[derive(Default)]
pub struct Acc {
    pub sink: VSink,
    pub histories: u64,
    pub ops: u64,
    pub checks: u64,
    pub nontrivial: u64,
    pub configs: u64,
    pub bfs_states: u64,
    pub bfs_transitions: u64,
    pub bfs_max_depth: u64,
    pub bfs_capped: u64,
    pub bfs_configs: u64,
    pub outcomes: std::collections::HashSet<u64>,
    pub samples: Vec<Value>,
}

pub fn merge(a: &mut Acc, b: Acc) {
    a.sink.merge(b.sink);
    a.histories += b.histories;
    a.ops += b.ops;
    a.checks += b.checks;
    a.nontrivial += b.nontrivial;
    a.configs += b.configs;
    a.bfs_states += b.bfs_states;
    a.bfs_transitions += b.bfs_transitions;
    a.bfs_max_depth = a.bfs_max_depth.max(b.bfs_max_depth);
    a.bfs_capped += b.bfs_capped;
    a.bfs_configs += b.bfs_configs;
    if a.outcomes.len() < 65536 {
        a.outcomes.extend(b.outcomes);
    }
    if a.samples.len() < 3 {
        a.samples.extend(b.samples);
    }
}

fn hist_json(cfg: &Config, init: S4, h: &[Op]) -> Value {
    let mut rust = String::from("let mut a = /* animator as in `config` */;\n");
    for op in h {
        rust += &format!("a.{};\n", op.name().replace("set_state(", "set_state(&S4::"));
    }
    json!({"config": cfg.to_json(), "initial_state": format!("{init:?}"), "history": h.iter().map(|o| o.to_json()).collect::<Vec<_>>(), "rust": rust})
}


/// Complete unit-test source replaying a history on a builder-built animator (public API only).
fn animator_unit_test(cfg: &Config, init: S4, h: &[Op], prop: Prop, extra: &[String]) -> String {
    let mut s = String::from(UNIT_TEST_HEADER);
    s += "\n#[derive(Clone, Copy, Debug, Default, PartialEq, Eq, State)]\nenum S4 { #[default] X, Y, U1, U2 }\n\nfn build() -> EnumStateAnimator<S4, PTimeline> {\n";
    for (i, name) in ["x", "y"].iter().enumerate() {
        s += &format!("    let {name} = MergedTimeline::of(vec![{}]);\n", cfg.specs[i].iter().map(|sp| sp.rust_source().replace('\n', "\n        ")).collect::<Vec<_>>().join(",\n        "));
    }
    let third = if cfg.zi.is_some() {
        s += &format!("    let z = MergedTimeline::of(vec![{}]);\n", cfg.zspecs.iter().map(|sp| sp.rust_source().replace('\n', "\n        ")).collect::<Vec<_>>().join(",\n        "));
        ".on(S4::U2, z)"
    } else {
        ""
    };
    s += &format!("    StateAnimatorBuilder::<S4, PTimeline>::new().from_state(S4::{init:?}).from_values({}).on(S4::X, x).on(S4::Y, y){third}.build()\n}}\n\n#[test]\nfn replay_case() {{\n    let mut a = build();\n", initial_values().rust_expr());
    for (i, op) in h.iter().enumerate() {
        if i + 1 == h.len() {
            s += "    let before = a.current_values().clone();\n    let _ = &before;\n";
        }
        s += &format!("    a.{};\n    println!(\"{} -> {{:?}} {{:?}} ended={{}}\", a.current_state(), a.current_values(), a.is_ended());\n", op.name().replace("set_state(", "set_state(&S4::"), op.name());
    }
    match prop {
        Prop::C04 => s += "    assert_eq!(format!(\"{:?}\", before), format!(\"{:?}\", a.current_values()), \"set_state changed current_values\");\n",
        Prop::C06 => {
            s += "    let mut b = build();\n";
            for op in normal_form(init, h) {
                s += &format!("    b.{};\n", op.name().replace("set_state(", "set_state(&S4::"));
            }
            s += "    assert_eq!(format!(\"{:?} {}\", a.current_values(), a.is_ended()), format!(\"{:?} {}\", b.current_values(), b.is_ended()), \"the same elapsed time delivered differently gives different results\");\n";
        }
        _ => {}
    }
    for e in extra {
        s += &format!("    {e}\n");
    }
    s += "}\n";
    s
}

fn hname(h: &[Op]) -> String {
    h.iter().map(|o| o.name()).collect::<Vec<_>>().join("; ")
}

fn zero_advance_before_first_evaluation(cfg: &Config, init: S4, h: &[Op]) -> bool {
    // only where the initial timeline does not start on the initial values (the negative-delay shape)
    if !(init == S4::X && cfg.names[0] == "negative-delay") {
        return false;
    }
    let mut cur = init;
    for op in h {
        match op {
            Op::Adv(d) if *d == 0.0 => return true,
            Op::Adv(_) => return false,
            Op::Set(s) if *s == cur => {}
            Op::Set(s) => {
                if cfg.shape(*s).is_some() {
                    return false;
                }
                cur = *s;
            }
        }
    }
    false
}

/// Normal form of a history: consecutive advances merged (exact: all steps are whole numbers of
/// nanoseconds and dyadic), zero advances and same-state set_state dropped.
/// Detours removed: from an animated state X or Y into the un-animated U1 and straight back (only advances in
/// between). The interrupted animation is frozen meanwhile and resumes where it was, so the time spent in X / Y and
/// therefore the values at the end are the same as if the detour had not happened.
fn without_detours(init: S4, h: &[Op]) -> Vec<Op> {
    let mut out: Vec<Op> = vec![];
    let mut cur = init;
    let mut i = 0;
    while i < h.len() {
        if let Op::Set(S4::U1) = h[i] {
            if cur == S4::X || cur == S4::Y {
                let mut j = i + 1;
                while j < h.len() && matches!(h[j], Op::Adv(_) | Op::Set(S4::U1)) {
                    j += 1;
                }
                if j < h.len() && h[j] == Op::Set(cur) {
                    i = j + 1;
                    continue;
                }
            }
        }
        if let Op::Set(s) = h[i] {
            cur = s;
        }
        out.push(h[i]);
        i += 1;
    }
    out
}

fn normal_form(init: S4, h: &[Op]) -> Vec<Op> {
    normal_form_of(init, h, false)
}

fn normal_form_of(init: S4, h: &[Op], detours: bool) -> Vec<Op> {
    let reduced;
    let h = if detours {
        reduced = without_detours(init, h);
        &reduced[..]
    } else {
        h
    };
    let mut out: Vec<Op> = vec![];
    let mut cur = init;
    let mut pending = Duration::ZERO;
    for op in h {
        match op {
            Op::Adv(d) => {
                // merge only while the merged amount is itself exactly representable as an f32
                // number of seconds (the statement's exact clause needs a+b representable)
                let sum = pending + Duration::from_secs_f32(*d);
                if Duration::from_secs_f32(sum.as_secs_f32()) == sum {
                    pending = sum;
                } else {
                    if pending > Duration::ZERO {
                        out.push(Op::Adv(pending.as_secs_f32()));
                    }
                    pending = Duration::from_secs_f32(*d);
                }
            }
            Op::Set(s) => {
                if *s == cur {
                    continue;
                }
                if pending > Duration::ZERO {
                    out.push(Op::Adv(pending.as_secs_f32()));
                    pending = Duration::ZERO;
                }
                out.push(Op::Set(*s));
                cur = *s;
            }
        }
    }
    if pending > Duration::ZERO {
        out.push(Op::Adv(pending.as_secs_f32()));
    }
    out
}

fn values_cmp(got: &P, prev: &P, want: &RefOut, sc: (f64, f64, f64)) -> Result<(), String> {
    cmp_float("a", got.a as f64, got.a.to_bits() == prev.a.to_bits(), want.a, sc.0, false)?;
    cmp_float("k", got.k as f64, got.k == prev.k, want.k, sc.1, true)?;
    cmp_float("d", got.d, got.d.to_bits() == prev.d.to_bits(), want.d, sc.2, false)?;
    if got.u.to_bits() != prev.u.to_bits() || got.z.to_bits() != prev.z.to_bits() {
        return Err("u/z: un-animated field modified".into());
    }
    Ok(())
}

/// Executes one history on a fresh real animator with the reference stepped alongside and checks
/// the clauses of `prop` on the LAST operation.
pub fn check_history(cfg: &Config, init: S4, h: &[Op], prop: Prop, rank: u64, acc: &mut Acc) -> (Obs, RefAnim) {
    acc.histories += 1;
    let mut real = cfg.build(init);
    let mut model = RefAnim::new(init);
    let n = h.len();
    for op in &h[..n - 1] {
        let vals = real.current_values().clone();
        model.step(cfg, op, &vals);
        apply(&mut real, op);
        acc.ops += 1;
    }
    let pre = observe(&real);
    let pre_model_ended = model.ended(cfg);
    let last = &h[n - 1];
    model.step(cfg, last, &pre.values);
    apply(&mut real, last);
    acc.ops += 1;
    let post = observe(&real);
    // Construction does not evaluate the initial state's timeline (outside the statements): as long as the
    // history consists of no-op set_state(initial state) calls only, nothing has been evaluated yet and there is
    // nothing to compare. The first advance - also one of zero length - puts the values on the timeline.
    if prop == Prop::C05 && h.iter().all(|op| matches!(op, Op::Set(s) if *s == init)) {
        return (post, model);
    }
    if acc.outcomes.len() < 8192 {
        let b = post.values.bits();
        acc.outcomes.insert(b[0] ^ (b[1] << 20) ^ (b[2] << 7) ^ (post.state as u64) << 60 ^ (post.ended as u64) << 59);
    }
    let mk = |what: String| {
        let mut extra = vec![format!("// reported: {}", what.replace('\n', " "))];
        match prop {
            Prop::C07 => extra.push(format!("assert_eq!(a.is_ended(), {}, \"is_ended\");", model.ended(cfg))),
            Prop::C05 => extra.push(format!("assert_eq!(*a.current_state(), S4::{:?});", model.cur)),
            _ => {}
        }
        let mut j = hist_json(cfg, init, h);
        j["unit_test"] = json!(animator_unit_test(cfg, init, h, prop, &extra));
        (format!("{what} | config X={} Y={} variant {} init {init:?} | history: {}", cfg.names[0], cfg.names[1], cfg.variant, hname(h)), j)
    };
    match prop {
        Prop::C04 => {
            if let Op::Set(s) = last {
                acc.checks += 1;
                if *s != pre.state {
                    acc.nontrivial += 1;
                }
                if post.values.bits() != pre.values.bits() {
                    let kind = if *s == pre.state {
                        "same-state"
                    } else if pre.paused.as_ref().map(|p| p.0) == Some(*s) {
                        "entering-remembered-state"
                    } else if cfg.shape(*s).is_some() {
                        "entering-animated-state"
                    } else {
                        "entering-unanimated-state"
                    };
                    acc.sink.add(&format!("jump:{kind}"), rank, || mk(format!("set_state({s:?}) changed current_values from {:?} to {:?}", pre.values, post.values)));
                }
                if *s == pre.state && (post.time != pre.time || post.ended != pre.ended || post.paused != pre.paused || post.state != pre.state) {
                    acc.sink.add("same-state-not-a-noop", rank, || mk(format!("set_state to the current state changed time/pause/is_ended: {:?} -> {:?}", pre, post)));
                }
            }
        }
        Prop::C05 => {
            acc.checks += 1;
            if post.state != model.cur {
                acc.sink.add("current-state", rank, || mk(format!("current_state {:?}, expected {:?}", post.state, model.cur)));
            }
            if post.time != model.t {
                acc.sink.add("time-in-state", rank, || mk(format!("time in state {:?}, reference {:?}", post.time, model.t)));
            }
            // pause record compared only while live (current state un-animated)
            if cfg.shape(model.cur).is_none() && post.paused != model.paused {
                acc.sink.add("pause-record", rank, || mk(format!("remembered animation {:?}, reference {:?}", post.paused, model.paused)));
            }
            // self-consistency (exact, model-free): the values shown are the current state's timeline evaluated at
            // the animator's own clock, written over the values held before the operation
            {
                let mut p = pre.values.clone();
                if real.verif_probe(&post.state, post.time.as_secs_f32(), &mut p) && p.bits() != post.values.bits() {
                    acc.sink.add("values:not-the-timeline-at-the-clock", rank, || mk(format!("current_values {:?}, but the state's timeline at the time in state {:?} gives {:?}", post.values, post.time, p)));
                }
            }
            match model.expect(cfg) {
                None => {
                    if post.values.bits() != pre.values.bits() {
                        acc.sink.add("values:unanimated-state-changed-values", rank, || mk(format!("values changed in a state without timeline: {:?} -> {:?}", pre.values, post.values)));
                    }
                }
                Some((want, sc)) => {
                    if want.a != RV::Untouched || want.k != RV::Untouched || want.d != RV::Untouched {
                        acc.nontrivial += 1;
                    }
                    if let Err(m) = values_cmp(&post.values, &pre.values, &want, sc) {
                        let kind = match last {
                            Op::Adv(_) => "after-advance",
                            Op::Set(s) if pre.paused.as_ref().map(|p| p.0) == Some(*s) => "after-return-to-remembered-state",
                            Op::Set(_) => "after-set_state",
                        };
                        acc.sink.add(&format!("values:{kind}"), rank, || mk(format!("{m}; values {:?}, reference {:?} at t={:?}", post.values, want, model.t)));
                    }
                }
            }
        }
        // Construction does not evaluate the initial timeline: while nothing has been evaluated yet (no advance of
        // positive length, no entry into an animated state), a zero-length advance is the first evaluation and is
        // therefore not a no-op. Histories with such an advance are outside C06's clauses.
        Prop::C06 if zero_advance_before_first_evaluation(cfg, init, h) => {}
        Prop::C06 => {
            // (detours are not removed where the initial timeline has not been evaluated yet: the resume would be
            // its first evaluation)
            let nf = normal_form_of(init, h, !(init == S4::X && cfg.names[0] == "negative-delay"));
            if nf.len() != h.len() {
                acc.checks += 1;
                acc.nontrivial += 1;
                let mut twin = cfg.build(init);
                for op in &nf {
                    apply(&mut twin, op);
                    acc.ops += 1;
                }
                let t = observe(&twin);
                if t.values.bits() != post.values.bits() || t.state != post.state || t.ended != post.ended {
                    let kind = if h.iter().any(|o| matches!(o, Op::Set(_))) { "with-state-changes" } else { "advances-only" };
                    acc.sink.add(&format!("schedule-dependence:{kind}"), rank, || mk(format!("values {:?} ended={} but the same time delivered as [{}] gives {:?} ended={}", post.values, post.ended, hname(&nf), t.values, t.ended)));
                }
            }
            if let Op::Adv(d) = last {
                if *d == 0.0 && (post.values.bits() != pre.values.bits() || post.ended != pre.ended || post.time != pre.time) {
                    acc.sink.add("advance-zero-not-a-noop", rank, || mk(format!("advance(0) changed {:?} -> {:?}", pre, post)));
                }
            }
        }
        Prop::C07 => {
            acc.checks += 1;
            let want = model.ended(cfg);
            if want != pre_model_ended {
                acc.nontrivial += 1;
            }
            if post.ended != want {
                let kind = if post.ended { "reported-early" } else { "not-reported" };
                let inf = cfg.shape(model.cur).map(|s| s.total.is_none()).unwrap_or(false);
                acc.sink.add(&format!("is_ended:{kind}{}", if inf { ":infinite-component" } else { "" }), rank, || mk(format!("is_ended() = {} but time in state {:?} vs total {:?}", post.ended, model.t, cfg.shape(model.cur).map(|s| s.total))));
            }
            if let Op::Adv(_) = last {
                if pre_model_ended && pre.ended && post.values.bits() != pre.values.bits() {
                    acc.sink.add("values-move-after-end", rank, || mk(format!("values changed after the end: {:?} -> {:?}", pre.values, post.values)));
                }
                if pre_model_ended && !post.ended {
                    acc.sink.add("is_ended:not-sticky", rank, || mk("is_ended went back to false".into()));
                }
            }
            if want {
                if let (Some(sh), Some(entry)) = (cfg.shape(model.cur), model.entry[sidx(model.cur)].as_ref()) {
                    // terminal values: every component at its own end
                    let term = sh.eval(f32::MAX, entry);
                    if let Err(m) = values_cmp(&post.values, &post.values, &term, sh.scale(entry)) {
                        acc.sink.add("terminal-values", rank, || mk(format!("ended but values are not the terminal values: {m}")));
                    }
                }
            }
        }
    }
    (post, model)
}

/// C06 companion for steps that are NOT exactly representable (0.1, 0.2, 0.3, 1/3, 0.7): every
/// sequence of 2..=5 such steps in state X (entered from non-default initial values) against one
/// advance of the f32 sum. The statement promises agreement "within float rounding": the clocks differ
/// by a few nanoseconds, so values may differ by slope * 1e-7 * span; sequences whose end time lies within
/// 1e-5 s of a discontinuity of the reference (cycle wrap, end, end of the first pass) are skipped.
fn c06_nonrepresentable(cfg: &Config, rank0: u64, acc: &mut Acc) {
    let steps = [0.1f32, 0.2, 0.3, 1.0 / 3.0, 0.7];
    let Some(sh) = cfg.shape(S4::X) else { return };
    let entry = initial_values();
    for len in 2..=5usize {
        for code in 0..5usize.pow(len as u32) {
            let mut c = code;
            let seq: Vec<f32> = (0..len).map(|_| { let s = steps[c % 5]; c /= 5; s }).collect();
            let sum: f32 = seq.iter().sum();
            let mut a = cfg.build(S4::X);
            for s in &seq {
                a.advance(*s);
            }
            let mut b = cfg.build(S4::X);
            b.advance(sum);
            acc.histories += 2;
            acc.ops += len as u64 + 1;
            let (va, vb) = (a.current_values().clone(), b.current_values().clone());
            let t = a.verif_time_in_state().as_secs_f32();
            // skip near discontinuities of the reference
            let eps = 2e-5f32;
            let (lo, hi) = (sh.eval((t - eps).max(0.0), &entry), sh.eval(t + eps, &entry));
            let close = |x: RV, y: RV, tol: f64| match (x, y) {
                (RV::Val(p), RV::Val(q)) => (p - q).abs() <= tol,
                (p, q) => p == q,
            };
            let sc = sh.scale(&entry);
            let tol_a = 1e-3 * sc.0.max(1.0);
            if !(close(lo.a, hi.a, tol_a) && close(lo.k, hi.k, 1.0 + 1e-3 * sc.1) && close(lo.d, hi.d, 1e-3 * sc.2.max(1.0))) {
                acc.checks += 1; // counted, skipped
                continue;
            }
            acc.checks += 1;
            acc.nontrivial += 1;
            let bad = (va.a - vb.a).abs() as f64 > tol_a || (va.k - vb.k).abs() > 1 || (va.d - vb.d).abs() > 1e-3 * sc.2.max(1.0) || a.is_ended() != b.is_ended() && !near_total(sh, t);
            if bad {
                acc.sink.add("schedule-dependence:non-representable-steps", rank0 | (len as u64) << 32 | code as u64, || {
                    (format!("advance {:?} one by one gives {:?} (ended {}), advance({sum}) gives {:?} (ended {}) | config X={} variant {}", seq, va, a.is_ended(), vb, b.is_ended(), cfg.names[0], cfg.variant), json!({"config": cfg.to_json(), "steps": seq, "sum": sum}))
                });
            }
        }
    }
}


/// State enum with a data-carrying variant (supported by the `State` / `enum_map::Enum` derive): `P(false)` and
/// `P(true)` are distinct states that share their variant.
#[derive(Clone, Copy, Debug, Default, PartialEq, Eq, State)]
pub enum SD {
    #[default]
    U1,
    P(bool),
    U2,
}

fn sd_of(s: S4) -> SD {
    match s {
        S4::X => SD::P(false),
        S4::Y => SD::P(true),
        S4::U1 => SD::U1,
        S4::U2 => SD::U2,
    }
}

/// Twin companion (C05, C07): the animator's behaviour depends on which states are EQUAL, not on how the state type
/// is written. The same configuration is built once over the fieldless `S4` and once over `SD`, whose two animated
/// states are `P(false)` / `P(true)`; every history of set_state (4 states) / advance up to depth 5 (6 in thorough)
/// is replayed on both and current state, values (bit-exact) and is_ended must agree after every operation.
fn state_type_twin(thorough: bool, acc: &mut Acc) {
    let p = pool(0);
    let pairs: Vec<(usize, usize)> = vec![(0, 1), (1, 0), (0, 3), (2, 5), (4, 0), (1, 6)].into_iter().filter(|(a, b)| *a < p.len() && *b < p.len()).collect();
    let ops: Vec<Op> = vec![Op::Adv(0.25), Op::Adv(1.0), Op::Adv(8.0), Op::Set(S4::X), Op::Set(S4::Y), Op::Set(S4::U1), Op::Set(S4::U2)];
    let depth = if thorough { 6 } else { 5 };
    let inits = [S4::X, S4::U1];
    let jobs: Vec<(usize, usize, S4)> = pairs.iter().flat_map(|&(x, y)| inits.iter().map(move |&i| (x, y, i))).collect();
    let res = par_fold(
        jobs.len(),
        Acc::default,
        |ji, acc| {
            let (xi, yi, init) = jobs[ji];
            let cfg = Config::new(xi, yi, 0);
            let total = ops.len().pow(depth as u32);
            for code in 0..total {
                let mut a = cfg.build(init);
                let mut b = StateAnimatorBuilder::<SD, PTimeline>::new().from_state(sd_of(init)).from_values(initial_values()).on(SD::P(false), cfg.merged[0].clone()).on(SD::P(true), cfg.merged[1].clone()).build();
                let mut c = code;
                let mut h: Vec<Op> = vec![];
                acc.histories += 1;
                for _ in 0..depth {
                    let op = ops[c % ops.len()];
                    c /= ops.len();
                    h.push(op);
                    apply(&mut a, &op);
                    match op {
                        Op::Adv(d) => b.advance(d),
                        Op::Set(st) => b.set_state(&sd_of(st)),
                    }
                    acc.ops += 1;
                    acc.checks += 1;
                    if matches!(op, Op::Set(_)) {
                        acc.nontrivial += 1;
                    }
                    let same = sd_of(*a.current_state()) == *b.current_state() && a.current_values().bits() == b.current_values().bits() && a.is_ended() == b.is_ended();
                    if !same {
                        let clause = if sd_of(*a.current_state()) != *b.current_state() { "current-state" } else if a.is_ended() != b.is_ended() { "is-ended" } else { "values" };
                        acc.sink.add(&format!("state-type-dependence:{clause}"), (1u64 << 50) | (ji as u64) << 32 | (h.len() as u64) << 28 | code as u64 % (1 << 28), || {
                            (format!("after [{}]: over the fieldless state enum: state {:?} values {:?} ended={}; over the enum whose animated states are P(false)/P(true): state {:?} values {:?} ended={}", hname(&h), a.current_state(), a.current_values(), a.is_ended(), b.current_state(), b.current_values(), b.is_ended()), json!({"twin": "state enum with a data variant: X = P(false), Y = P(true), U1, U2", "config": cfg.to_json(), "initial_state": format!("{init:?}"), "history": h.iter().map(|o| o.to_json()).collect::<Vec<_>>()}))
                        });
                        break;
                    }
                }
            }
        },
        merge,
    );
    merge(acc, res);
}

/// C05 companion: single steps at and beyond the range of the Duration clock (2^64, 2^65, 1e30 s, f32::MAX - all
/// finite and non-negative) inside short histories of finite shapes: the step counts as time spent (the clock
/// saturates), the animation is over, later set_state calls freeze / resume / blend from the terminal values.
fn c05_huge_step(acc: &mut Acc) {
    let p = pool(0);
    let finite: Vec<usize> = (0..p.len()).filter(|&i| RefShape::new(&p[i].1).total.is_some()).take(8).collect();
    for (n, &xi) in finite.iter().enumerate() {
        let yi = finite[(n + 1) % finite.len()];
        let cfg = Config::new(xi, yi, 0);
        for (hi, &big) in [18_446_744_073_709_551_616.0f32, 36_893_488_147_419_103_232.0, 1.0e30, f32::MAX].iter().enumerate() {
            let hs: Vec<Vec<Op>> = vec![
                vec![Op::Adv(0.25), Op::Adv(big), Op::Adv(0.25)],
                vec![Op::Adv(big), Op::Set(S4::U1), Op::Adv(1.0), Op::Set(S4::X), Op::Adv(0.25)],
                vec![Op::Adv(0.25), Op::Set(S4::Y), Op::Adv(big), Op::Set(S4::X), Op::Adv(0.25)],
                vec![Op::Adv(big), Op::Set(S4::Y), Op::Adv(0.25), Op::Set(S4::U2), Op::Set(S4::Y)],
            ];
            for (k, h) in hs.iter().enumerate() {
                for len in 1..=h.len() {
                    acc.histories += 1;
                    check_history(&cfg, S4::X, &h[..len], Prop::C05, (1u64 << 51) | (n as u64) << 16 | (hi as u64) << 8 | (k as u64) << 4 | len as u64, acc);
                }
            }
        }
    }
}

/// C07 companion: a state whose timeline is already over when it is entered (a negative delay that consumes every
/// cycle: total duration <= 0). Completion is reported at once, and - as whenever completion is reported - the values
/// are the terminal values and no longer move.
fn c07_over_on_entry(acc: &mut Acc) {
    let x = TlSpec { kfs: vec![kf(0.0, Some(-64.0), Some(-100), None, None), kf(1.0, Some(96.0), Some(250), None, None)], default_easing: 0, timing: Timing::new(1.0, 0.0, Rep::None, false) };
    let timings = [Timing::new(1.0, -1.0, Rep::None, false), Timing::new(1.0, -2.0, Rep::None, false), Timing::new(0.5, -1.0, Rep::Times(1), false), Timing::new(0.5, -1.5, Rep::Times(1), true), Timing::new(0.25, -8.0, Rep::Times(3), false)];
    let pre: [&[Op]; 5] = [&[], &[Op::Adv(0.25)], &[Op::Adv(8.0)], &[Op::Set(S4::U1), Op::Adv(0.25)], &[Op::Adv(0.25), Op::Set(S4::U1)]];
    let post: [&[Op]; 4] = [&[Op::Adv(0.0)], &[Op::Adv(0.25), Op::Adv(8.0)], &[Op::Set(S4::U1), Op::Adv(0.25), Op::Set(S4::Y), Op::Adv(0.25)], &[Op::Set(S4::Y), Op::Adv(1.0)]];
    for (ti, tm) in timings.iter().enumerate() {
        let y = TlSpec { kfs: vec![kf(0.0, Some(40.0), Some(-40), None, None), kf(1.0, Some(120.0), Some(80), None, None)], default_easing: 0, timing: *tm };
        // terminal values: the 100% keyframe, or the original 0% keyframe when reversing
        let (ta, tk) = if tm.reverse { (40.0f32, -40) } else { (120.0f32, 80) };
        for (pi, pr) in pre.iter().enumerate() {
            for (qi, po) in post.iter().enumerate() {
                let mut a = StateAnimatorBuilder::<S4, PTimeline>::new().from_state(S4::X).from_values(initial_values()).on(S4::X, x.builder()).on(S4::Y, y.builder()).build();
                let mut h: Vec<Op> = pr.to_vec();
                for op in pr.iter() {
                    apply(&mut a, op);
                }
                h.push(Op::Set(S4::Y));
                acc.histories += 1;
                // (a panic anywhere in such a history is reported as a violation, not as a crash of the check)
                let survived = std::panic::catch_unwind(std::panic::AssertUnwindSafe(|| {
                    let mut b = StateAnimatorBuilder::<S4, PTimeline>::new().from_state(S4::X).from_values(initial_values()).on(S4::X, x.builder()).on(S4::Y, y.builder()).build();
                    for op in pr.iter() {
                        apply(&mut b, op);
                    }
                    b.set_state(&S4::Y);
                    for op in po.iter() {
                        apply(&mut b, op);
                    }
                }))
                .is_ok();
                if !survived {
                    acc.sink.add("over-on-entry:panic", (1u64 << 52) | (ti as u64) << 16 | (pi as u64) << 8 | (qi as u64) << 4, || {
                        (format!("Y = cycle {} s, delay {} s, {:?}, reverse {} (total duration <= 0): entering Y after [{}] (or one of the following operations) panicked", tm.cycle, tm.delay, tm.rep, tm.reverse, hname(&h)), json!({"companion": "over-on-entry", "Y": y.to_json(), "X": x.to_json(), "history": h.iter().map(|o| o.to_json()).collect::<Vec<_>>()}))
                    });
                    continue;
                }
                a.set_state(&S4::Y);
                for step in 0..=po.len() {
                    if step > 0 {
                        apply(&mut a, &po[step - 1]);
                        h.push(po[step - 1]);
                    }
                    acc.ops += 1;
                    acc.checks += 1;
                    acc.nontrivial += 1;
                    let in_y = *a.current_state() == S4::Y;
                    let v = a.current_values();
                    let bad = if !a.is_ended() { Some("not-reported") } else if v.a.to_bits() != ta.to_bits() || v.k != tk { Some("values-not-terminal") } else { None };
                    if let Some(what) = bad {
                        acc.sink.add(&format!("over-on-entry:{what}"), (1u64 << 52) | (ti as u64) << 16 | (pi as u64) << 8 | (qi as u64) << 4 | step as u64, || {
                            (format!("Y = cycle {} s, delay {} s, {:?}, reverse {} (total duration <= 0); after [{}]: state {:?} (Y: {in_y}) is_ended={} values {:?}, terminal values a={ta} k={tk}", tm.cycle, tm.delay, tm.rep, tm.reverse, hname(&h), a.current_state(), a.is_ended(), v), json!({"companion": "over-on-entry", "Y": y.to_json(), "X": x.to_json(), "history": h.iter().map(|o| o.to_json()).collect::<Vec<_>>()}))
                        });
                        break;
                    }
                }
            }
        }
    }
}

/// C07 companion: the clock lands EXACTLY on the total duration, for every combination of repeat (None, Times 0..3),
/// reverse and delay, delivered in one step, in two halves and in quarter-second frames. At that instant completion
/// is reported and the values are the terminal values (100%, or the original 0% keyframe for reversing timelines),
/// and they no longer move.
fn c07_exact_landing(acc: &mut Acc) {
    let idle = TlSpec { kfs: vec![kf(0.0, Some(-64.0), None, None, None), kf(1.0, Some(96.0), None, None, None)], default_easing: 0, timing: Timing::new(1.0, 0.0, Rep::None, false) };
    let mut ci = 0u64;
    for rep in [Rep::None, Rep::Times(0), Rep::Times(1), Rep::Times(2), Rep::Times(3)] {
        for reverse in [false, true] {
            for delay in [0.0f32, 0.25, 1.0] {
                for cycle in [0.5f32, 4.0] {
                    ci += 1;
                    let tm = Timing::new(cycle, delay, rep, reverse);
                    let x = TlSpec { kfs: vec![kf(0.0, Some(40.0), Some(-40), None, None), kf(0.5, Some(90.0), Some(500), None, None), kf(1.0, Some(120.0), Some(80), None, None)], default_easing: 0, timing: tm };
                    let total = tm.total().unwrap() as f32;
                    let (ta, tk) = if reverse { (40.0f32, -40) } else { (120.0f32, 80) };
                    let quarters = (total / 0.25) as usize;
                    let deliveries: Vec<Vec<f32>> = vec![vec![total], vec![total / 2.0, total / 2.0], vec![0.25; quarters], std::iter::once(total - 0.25).chain(std::iter::once(0.25)).collect()];
                    for (di, steps) in deliveries.iter().enumerate() {
                        // start in X (entered at construction) and, second variant, enter X by set_state from an idle state
                        for via_set in [false, true] {
                            let mut a = StateAnimatorBuilder::<S4, PTimeline>::new().from_state(if via_set { S4::Y } else { S4::X }).from_values(P { a: 40.0, k: -40, ..initial_values() }).on(S4::X, x.builder()).on(S4::Y, idle.builder()).build();
                            let mut h: Vec<String> = vec![];
                            if via_set {
                                a.set_state(&S4::X);
                                h.push("set_state(X)".into());
                            }
                            for d in steps {
                                a.advance(*d);
                                h.push(format!("advance({d:?})"));
                            }
                            acc.histories += 1;
                            for (after, extra) in [0.0f32, 0.0, 0.25, 8.0].iter().enumerate() {
                                if after > 0 {
                                    a.advance(*extra);
                                    h.push(format!("advance({extra:?})"));
                                }
                                acc.ops += 1;
                                acc.checks += 1;
                                acc.nontrivial += 1;
                                let v = a.current_values();
                                let bad = if !a.is_ended() { Some("not-reported") } else if v.a.to_bits() != ta.to_bits() || v.k != tk { Some(if after == 0 { "values-not-terminal-at-the-end-instant" } else { "values-not-terminal-afterwards" }) } else { None };
                                if let Some(what) = bad {
                                    acc.sink.add(&format!("exact-landing:{what}"), (1u64 << 53) | ci << 16 | (di as u64) << 8 | (via_set as u64) << 4 | after as u64, || {
                                        (format!("X = cycle {cycle} s, delay {delay} s, {rep:?}, reverse {reverse} (total {total} s); after [{}]: is_ended={} values {:?}, terminal values a={ta} k={tk}", h.join("; "), a.is_ended(), v), json!({"companion": "exact-landing", "X": x.to_json(), "history": h}))
                                    });
                                    break;
                                }
                            }
                        }
                    }
                }
            }
        }
    }
}

/// C06 companion with astronomically long (but finite, exactly representable) steps: a 2^36 s timeline; one
/// advance(2^35) against two advance(2^34), one advance(2^36) against two advance(2^35), ... up to steps of 2^63,
/// 2^64, 2^65, 2^100 s and f32::MAX (the Duration clock saturates), also with zero-length advances in between - values, is_ended and the clock must agree exactly.
fn c06_huge_steps(acc: &mut Acc) {
    let total = 68_719_476_736.0f32; // 2^36 s
    let spec = TlSpec {
        kfs: vec![Kf { pos: 0.0, a: Some(0.0), k: Some(0), d: None, easing: None }, Kf { pos: 1.0, a: Some(1024.0), k: Some(4096), d: None, easing: None }],
        default_easing: 0,
        timing: Timing::new(total, 0.0, Rep::None, false),
    };
    let build = || StateAnimatorBuilder::<S4, PTimeline>::new().from_state(S4::X).from_values(P::default()).on(S4::X, spec.builder()).build();
    for (ci, &(whole, parts)) in [(34_359_738_368.0f32, 2usize), (68_719_476_736.0, 2), (68_719_476_736.0, 4), (137_438_953_472.0, 2), (1_099_511_627_776.0, 4),
        // at and beyond the range of the Duration clock (2^64 s): the clock saturates, in one step or in several
        (9_223_372_036_854_775_808.0, 2), (18_446_744_073_709_551_616.0, 2), (36_893_488_147_419_103_232.0, 2), (36_893_488_147_419_103_232.0, 4), (1.2676506e30, 4), (f32::MAX, 2)].iter().enumerate() {
        for zeros in [false, true] {
            let run = std::panic::catch_unwind(std::panic::AssertUnwindSafe(|| {
                let mut a = build();
                for _ in 0..parts {
                    a.advance(whole / parts as f32);
                    if zeros {
                        a.advance(0.0);
                    }
                }
                // one more ordinary frame after the clock has (possibly) saturated
                a.advance(0.0);
                let mut b = build();
                b.advance(whole);
                (observe(&a), observe(&b))
            }));
            acc.histories += 2;
            acc.ops += parts as u64 + 1;
            acc.checks += 1;
            acc.nontrivial += 1;
            let Ok((oa, ob)) = run else {
                acc.sink.add("panic-in-advance:huge-steps", (1u64 << 49) | (ci as u64) << 1 | zeros as u64, || {
                    (format!("{parts} x advance({:e}) or one advance({whole:e}) panicked (timeline of {total:e} s)", whole / parts as f32), json!({"whole": whole, "parts": parts, "zero_advances_between": zeros, "timeline": spec.to_json()}))
                });
                continue;
            };
            if oa.values.bits() != ob.values.bits() || oa.ended != ob.ended || oa.time != ob.time {
                acc.sink.add("schedule-dependence:huge-steps", (1u64 << 49) | (ci as u64) << 1 | zeros as u64, || {
                    (format!("{parts} x advance({:e}) gives {:?} ended={} clock {:?}; one advance({whole:e}) gives {:?} ended={} clock {:?} (timeline of {total:e} s)", whole / parts as f32, oa.values, oa.ended, oa.time, ob.values, ob.ended, ob.time), json!({"whole": whole, "parts": parts, "zero_advances_between": zeros, "timeline": spec.to_json()}))
                });
            }
        }
    }
}

/// C06 companion: timelines whose whole active part is ABSORBED by the f32 rounding of the reported total
/// (cycle x (repeats+1) below half an ulp of the delay, so `duration() == delay()` although the animation has
/// not run at `time == delay`). A delivery that lands exactly on the delay and one that steps over it must
/// agree: every sequence of up to 4 steps from {0, D/4, D/2, D} against one advance of the (exact) sum, with a
/// zero-length advance appended to each side. All steps, sums and the delay are dyadic, so equality is bitwise.
fn c06_absorbed_cycle(acc: &mut Acc) {
    let mut ci = 0u64;
    for delay in [2.0f32, 0.5, 64.0] {
        for rep in [Rep::None, Rep::Times(0), Rep::Times(1)] {
            for reverse in [false, true] {
                ci += 1;
                let cycle = delay * 2f32.powi(-27);
                let tm = Timing::new(cycle, delay, rep, reverse);
                let spec = TlSpec { kfs: vec![kf(0.0, Some(-8.0), Some(-800), None, None), kf(0.5, Some(64.0), Some(6400), None, None), kf(1.0, Some(100.0), Some(10_000), None, None)], default_easing: 0, timing: tm };
                let build = || StateAnimatorBuilder::<S4, PTimeline>::new().from_state(S4::X).from_values(P::default()).on(S4::X, spec.builder()).build();
                let alphabet = [0.0f32, delay / 4.0, delay / 2.0, delay];
                for len in 1..=4usize {
                    for code in 0..4usize.pow(len as u32) {
                        let steps: Vec<f32> = (0..len).map(|i| alphabet[(code / 4usize.pow(i as u32)) % 4]).collect();
                        let sum: f32 = steps.iter().sum();
                        let run = std::panic::catch_unwind(std::panic::AssertUnwindSafe(|| {
                            let mut a = build();
                            for d in &steps {
                                a.advance(*d);
                            }
                            let mut b = build();
                            b.advance(sum);
                            let first = (observe(&a), observe(&b));
                            a.advance(0.0);
                            b.advance(0.0);
                            (first, (observe(&a), observe(&b)))
                        }));
                        acc.histories += 2;
                        acc.ops += len as u64 + 3;
                        acc.checks += 2;
                        if sum >= delay && steps.iter().filter(|d| **d > 0.0).count() > 1 {
                            acc.nontrivial += 1;
                        }
                        let rank = (1u64 << 51) | ci << 16 | (len as u64) << 12 | code as u64;
                        let Ok(((oa, ob), (za, zb))) = run else {
                            acc.sink.add("panic-in-advance:absorbed-cycle", rank, || (format!("advance panicked on steps {steps:?} (delay {delay}, cycle {cycle:e})"), json!({"steps": steps, "timeline": spec.to_json()})));
                            continue;
                        };
                        if oa.values.bits() != ob.values.bits() || oa.ended != ob.ended || oa.time != ob.time {
                            acc.sink.add("schedule-dependence:absorbed-cycle", rank, || {
                                (format!("steps {steps:?} give {:?} ended={}; one advance({sum:?}) gives {:?} ended={} (delay {delay}, cycle {cycle:e}, reported total {:?})", oa.values, oa.ended, ob.values, ob.ended, tm.total()), json!({"steps": steps, "timeline": spec.to_json()}))
                            });
                        }
                        if za.values.bits() != oa.values.bits() || zb.values.bits() != ob.values.bits() || za.ended != oa.ended || zb.ended != ob.ended {
                            acc.sink.add("advance-zero-not-a-noop:absorbed-cycle", rank, || {
                                (format!("after steps {steps:?} / advance({sum:?}) a further advance(0) changes {:?} -> {:?} / {:?} -> {:?} (delay {delay}, cycle {cycle:e})", oa.values, za.values, ob.values, zb.values), json!({"steps": steps, "timeline": spec.to_json()}))
                            });
                        }
                    }
                }
            }
        }
    }
}

/// C06 companion with very small steps (1 ns .. 1 us, i.e. around and below f32::EPSILON seconds): n such
/// steps against one advance of their sum, on a timeline short enough (1.25 x the total) that the progress is
/// most of the value range. Each step is within 1e-7 relative of a whole number of nanoseconds, so the two
/// clocks agree to 1 ns and the values to 1000 x 1 ns / cycle plus evaluation rounding.
fn c06_tiny_steps(acc: &mut Acc) {
    for (ci, &(s_ns, n)) in [(1u32, 4096u32), (10, 4096), (50, 2048), (100, 4096), (119, 1024), (120, 1024), (1000, 512)].iter().enumerate() {
        let s = (s_ns as f64 * 1e-9) as f32;
        let total_ns = s_ns as f64 * n as f64;
        let cycle = (1.25 * total_ns * 1e-9) as f32;
        let spec = TlSpec {
            kfs: vec![Kf { pos: 0.0, a: Some(0.0), k: Some(0), d: None, easing: None }, Kf { pos: 1.0, a: Some(1000.0), k: Some(100_000), d: None, easing: None }],
            default_easing: 0,
            timing: Timing::new(cycle, 0.0, Rep::None, false),
        };
        let build = || StateAnimatorBuilder::<S4, PTimeline>::new().from_state(S4::X).from_values(P::default()).on(S4::X, MergedTimeline::of([spec.build()])).build();
        for variant in 0..3 {
            // 0: n tiny steps; 1: tiny steps with a zero-length advance after each; 2: half of them, a state
            // round trip through an un-animated state, the other half
            let mut a = build();
            for i in 0..n {
                a.advance(s);
                if variant == 1 {
                    a.advance(0.0);
                }
                if variant == 2 && i == n / 2 {
                    a.set_state(&S4::U1);
                    a.set_state(&S4::X);
                }
            }
            let mut b = build();
            b.advance((total_ns * 1e-9) as f32);
            acc.histories += 2;
            acc.ops += n as u64 + 1;
            acc.checks += 1;
            acc.nontrivial += 1;
            let (va, vb) = (a.current_values().clone(), b.current_values().clone());
            let tol = 1000.0 / (1.25 * total_ns) + 0.01;
            let mut bad = (va.a - vb.a).abs() as f64 > tol || ((va.k - vb.k).abs() as f64) > 100.0 * tol + 1.0 || a.is_ended() != b.is_ended();
            // past the end both must be over
            for _ in 0..(n / 2) {
                a.advance(s);
            }
            b.advance((total_ns * 0.5e-9) as f32);
            bad |= !a.is_ended() || !b.is_ended() || a.current_values().a != 1000.0 || b.current_values().a != 1000.0;
            if bad {
                acc.sink.add("schedule-dependence:tiny-steps", (1u64 << 50) | (ci as u64) << 8 | variant, || {
                    (
                        format!("{n} x advance({s:e}) (variant {variant}) gives a={} k={}, one advance of the sum gives a={} k={} on a {cycle:e} s timeline (tolerance {tol:.3}); after 50% more time: ended {} / {}, a = {} / {}", va.a, va.k, vb.a, vb.k, a.is_ended(), b.is_ended(), a.current_values().a, b.current_values().a),
                        json!({"step_seconds": s, "steps": n, "cycle_seconds": cycle, "variant": variant, "timeline": spec.to_json()}),
                    )
                });
            }
        }
    }
}

/// C05 on the non-dyadic pool: only the model-free clauses - after the last operation of the history the values
/// are bit-identical to the current state's timeline evaluated at the animator's own clock (written over the
/// values held before the operation), un-animated states change nothing, and the clock is the exact sum of the
/// steps since the state was entered or resumed.
fn check_selfconsistency(cfg: &Config, init: S4, h: &[Op], rank: u64, acc: &mut Acc) {
    acc.histories += 1;
    let mut real = cfg.build(init);
    let n = h.len();
    for op in &h[..n - 1] {
        apply(&mut real, op);
        acc.ops += 1;
    }
    let pre = observe(&real);
    apply(&mut real, &h[n - 1]);
    acc.ops += 1;
    acc.checks += 1;
    let post = observe(&real);
    let mk = |what: String| {
        let mut j = hist_json(cfg, init, h);
        j["unit_test"] = json!(animator_unit_test(cfg, init, h, Prop::C05, &[format!("// reported: {}", what.replace('\n', " "))]));
        (format!("{what} | config X={} Y={} (non-dyadic pool) | history: {}", cfg.names[0], cfg.names[1], hname(h)), j)
    };
    let mut p = pre.values.clone();
    if real.verif_probe(&post.state, post.time.as_secs_f32(), &mut p) {
        acc.nontrivial += 1;
        if p.bits() != post.values.bits() {
            acc.sink.add("values:not-the-timeline-at-the-clock", rank, || mk(format!("current_values {:?}, but the state's timeline at the time in state {:?} gives {:?}", post.values, post.time, p)));
        }
    } else if post.values.bits() != pre.values.bits() {
        acc.sink.add("values:unanimated-state-changed-values", rank, || mk(format!("values changed in a state without timeline: {:?} -> {:?}", pre.values, post.values)));
    }
    if let Op::Adv(d) = h[n - 1] {
        if post.time != pre.time + Duration::from_secs_f32(d) {
            acc.sink.add("time-in-state", rank, || mk(format!("time in state {:?} after advance({d}) from {:?}", post.time, pre.time)));
        }
    }
}

/// C04 companion: many non-representable steps (0.1 s, 1/60 s, 0.3 s, 1/3 s) in an animated state, then a round trip
/// through an un-animated state: freezing and resuming must not move the values (bit-exact) - whatever clock the
/// animator keeps, the resume must land on the very time the last advance evaluated.
fn c04_drift(acc: &mut Acc) {
    let steps = [0.1f32, 1.0 / 60.0, 0.3, 1.0 / 3.0];
    let np = pool(0).len() - 1;
    let r = par_fold(
        np * 2,
        Acc::default,
        |i, acc| {
            let (xi, variant) = (i / 2, (i % 2) as u8);
            let cfg = Config::new(xi, (xi + 3) % np, variant);
            acc.configs += 1;
            for (si, &s) in steps.iter().enumerate() {
                for n in 1..=40usize {
                    let mut a = cfg.build(S4::X);
                    for _ in 0..n {
                        a.advance(s);
                    }
                    a.set_state(&S4::U1);
                    let pre = a.current_values().clone();
                    a.set_state(&S4::X);
                    let post = a.current_values().clone();
                    acc.histories += 1;
                    acc.ops += n as u64 + 2;
                    acc.checks += 1;
                    acc.nontrivial += 1;
                    if pre.bits() != post.bits() {
                        acc.sink.add("jump:resume-after-many-small-steps", (5u64 << 56) | (i as u64) << 32 | (si as u64) << 8 | n as u64, || {
                            (format!("{n} x advance({s}), set_state(U1), set_state(X): values moved from {:?} to {:?} at the resuming set_state | X = {} variant {variant}", pre, post, cfg.names[0]), json!({"config": cfg.to_json(), "step": s, "steps": n}))
                        });
                        break;
                    }
                }
            }
        },
        merge,
    );
    merge(acc, r);
}

/// C05 companion: an animator built WITHOUT `from_values` must behave exactly like one built with
/// `from_values(Default::default())` (the documented meaning of omitting it): all histories up to depth 4 on
/// every pool shape as the initial state's timeline, every observation bit-identical.
fn c05_omitted_from_values(acc: &mut Acc) {
    let np = pool(0).len() - 1;
    let ops = [Op::Adv(0.0), Op::Adv(0.25), Op::Adv(1.0), Op::Set(S4::X), Op::Set(S4::Y), Op::Set(S4::U1)];
    let r = par_fold(
        np * 2,
        Acc::default,
        |i, acc| {
            let (xi, variant) = (i / 2, (i % 2) as u8);
            let cfg = Config::new(xi, (xi + 1) % np, variant);
            acc.configs += 1;
            let build = |with: bool| {
                let b = StateAnimatorBuilder::<S4, PTimeline>::new().from_state(S4::X);
                let b = if with { b.from_values(P::default()) } else { b };
                b.on(S4::X, cfg.merged[0].clone()).on(S4::Y, cfg.merged[1].clone()).build()
            };
            let mut code = vec![0usize; 4];
            'outer: loop {
                let (mut a, mut b) = (build(false), build(true));
                acc.histories += 1;
                for (step, &oi) in code.iter().enumerate() {
                    apply(&mut a, &ops[oi]);
                    apply(&mut b, &ops[oi]);
                    acc.ops += 2;
                    acc.checks += 1;
                    let (oa, ob) = (observe(&a), observe(&b));
                    if oa.values.bits() != ob.values.bits() || oa.state != ob.state || oa.ended != ob.ended || oa.time != ob.time {
                        let h: Vec<Op> = code[..=step].iter().map(|&o| ops[o]).collect();
                        acc.sink.add("values:omitted-from_values-differs-from-default-values", (6u64 << 56) | (i as u64) << 32 | step as u64, || {
                            (format!("built without from_values: {:?}; built with from_values(Default): {:?} | X = {} variant {variant} | history: {}", oa, ob, cfg.names[0], hname(&h)), json!({"config": cfg.to_json(), "history": h.iter().map(|o| o.to_json()).collect::<Vec<_>>()}))
                        });
                        break;
                    }
                }
                // next code
                let mut p = 3;
                loop {
                    code[p] += 1;
                    if code[p] < ops.len() {
                        break;
                    }
                    code[p] = 0;
                    if p == 0 {
                        break 'outer;
                    }
                    p -= 1;
                }
            }
        },
        merge,
    );
    merge(acc, r);
}

/// Shapes with timings that are NOT exactly representable and a delay (variant 2 of `pool`): used by the C04
/// companion only, whose clause (set_state never changes current_values) needs no reference model.
fn nondyadic_pool() -> Vec<(&'static str, Vec<TlSpec>)> {
    let t = Timing::new;
    let lin = |a0: f32, a1: f32, k0: i32, k1: i32, tm: Timing| TlSpec { kfs: vec![kf(0.0, Some(a0), Some(k0), None, None), kf(1.0, Some(a1), Some(k1), None, None)], default_easing: 0, timing: tm };
    vec![
        ("nd-delay-3.5-cycle-0.1", vec![lin(0.0, 1000.0, 0, 7, t(0.1, 3.5, Rep::None, false))]),
        ("nd-delay-3.3-cycle-0.1-times-1", vec![lin(5.0, 995.0, -3, 3, t(0.1, 3.3, Rep::Times(1), false))]),
        ("nd-delay-3.9-cycle-0.2-reverse", vec![lin(-1000.0, 1000.0, 0, 1000, t(0.2, 3.9, Rep::None, true))]),
        ("nd-delay-0.7-cycle-0.3-times-2", vec![lin(0.3, 77.7, 1, 2, t(0.3, 0.7, Rep::Times(2), false))]),
        ("nd-merged-0.1+0.7", vec![lin(0.0, 1000.0, 0, 0, t(0.1, 3.5, Rep::None, false)), TlSpec { kfs: vec![kf(0.0, None, Some(10), None, None), kf(1.0, None, Some(90), None, None)], default_easing: 0, timing: t(0.7, 0.1, Rep::Times(1), false) }]),
        ("finite", vec![lin(-64.0, 96.0, -100, 250, t(1.0, 0.0, Rep::None, false))]),
    ]
}

/// C04 / C05 companion: non-dyadic delayed shapes, advance amounts that land exactly on (and one ulp around) the
/// reported total duration - where `is_ended` (clock >= delay + cycle x n, rounded once) and the time map
/// (clock - delay > cycle x n) may disagree by an ulp - then every history of set_state / advance up to
/// depth 5. Oracle: for C04 its clause (bit-exact, model-free); for C05 `check_selfconsistency`.
fn nondyadic_companion(prop: Prop, thorough: bool, acc: &mut Acc) {
    let np = nondyadic_pool().len();
    let mut cfgs: Vec<(usize, usize)> = vec![];
    for i in 0..np - 1 {
        cfgs.push((i, np - 1));
        cfgs.push((np - 1, i));
    }
    cfgs.push((0, 3));
    let depth = if thorough { 6 } else { 5 };
    let r = par_fold(
        cfgs.len(),
        Acc::default,
        |ci, acc| {
            let (xi, yi) = cfgs[ci];
            let cfg = Config::with_third(xi, yi, 2, None);
            acc.configs += 1;
            let mut advs: Vec<f32> = vec![0.25];
            for m in &cfg.merged {
                let d = m.duration();
                if d.is_finite() {
                    advs.extend([d, step_ulps(d, -1), step_ulps(d, 1)]);
                }
            }
            advs.sort_by(|a, b| a.total_cmp(b));
            advs.dedup();
            let mut ops: Vec<Op> = advs.iter().map(|&d| Op::Adv(d)).collect();
            ops.extend([Op::Set(S4::X), Op::Set(S4::Y), Op::Set(S4::U1), Op::Set(S4::U2)]);
            // all histories of length 1..=depth that end in a set_state (the clause is about set_state)
            let mut h: Vec<usize> = vec![];
            fn rec(cfg: &Config, ops: &[Op], h: &mut Vec<usize>, depth: usize, rank0: u64, prop: Prop, acc: &mut Acc) {
                if !h.is_empty() {
                    let hist: Vec<Op> = h.iter().map(|&i| ops[i]).collect();
                    let code = h.iter().fold(0u64, |c, &i| c * 16 + i as u64 + 1);
                    if prop == Prop::C04 {
                        // the clause is about set_state
                        if let Op::Set(_) = ops[*h.last().unwrap()] {
                            check_history(cfg, S4::X, &hist, Prop::C04, rank0 | (h.len() as u64) << 40 | code, acc);
                        }
                    } else {
                        check_selfconsistency(cfg, S4::X, &hist, rank0 | (h.len() as u64) << 40 | code, acc);
                    }
                }
                if h.len() == depth {
                    return;
                }
                for i in 0..ops.len() {
                    h.push(i);
                    rec(cfg, ops, h, depth, rank0, prop, acc);
                    h.pop();
                }
            }
            rec(&cfg, &ops, &mut h, depth, (3u64 << 60) | (ci as u64) << 52, prop, acc);
        },
        merge,
    );
    merge(acc, r);
}

/// C07 companion: a long time already spent in the state, then many small steps (the clock must keep counting
/// them exactly - an accumulator of lower precision absorbs or inflates them): advance(L), then steps of s until one
/// second past the end; after every step the clock is the exact sum of the steps and is_ended is true exactly when
/// that sum (as f32 seconds) has reached the reported duration, then sticky.
fn c07_long_run(acc: &mut Acc) {
    for (ci, &(long, extra, step)) in [(262_144.0f32, 6.0f32, 1.0f32 / 128.0), (16_384.0, 10.0, 0.001), (1_048_576.0, 2.0, 1.0 / 64.0), (32_768.0, 1.0, 1.0 / 512.0)].iter().enumerate() {
        let spec = TlSpec {
            kfs: vec![Kf { pos: 0.0, a: Some(0.0), k: Some(0), d: None, easing: None }, Kf { pos: 1.0, a: Some(1000.0), k: Some(7), d: None, easing: None }],
            default_easing: 0,
            timing: Timing::new(long + extra, 0.0, Rep::None, false),
        };
        let merged = MergedTimeline::of([spec.build()]);
        let reported = merged.duration();
        let mut a: Anim = StateAnimatorBuilder::<S4, PTimeline>::new().from_state(S4::X).from_values(initial_values()).on(S4::X, merged).build();
        a.advance(long);
        let mut clock = Duration::from_secs_f32(long);
        let mut was_ended = false;
        acc.histories += 1;
        let n = ((extra + 1.0) / step) as u32 + 2;
        for i in 0..n {
            a.advance(step);
            clock += Duration::from_secs_f32(step);
            acc.ops += 1;
            acc.checks += 1;
            let rank = (6u64 << 56) | (ci as u64) << 32 | i as u64;
            let mk = || json!({"timeline": spec.to_json(), "first_advance": long, "then_steps_of": step, "step_index": i});
            if a.verif_time_in_state() != clock {
                acc.sink.add("long-run:clock-is-not-the-sum-of-the-steps", rank, || (format!("after advance({long}) and {} steps of {step} s the time in state is {:?}, the exact sum is {:?}", i + 1, a.verif_time_in_state(), clock), mk()));
                break;
            }
            let want = clock.as_secs_f32() >= reported;
            if want != was_ended {
                acc.nontrivial += 1;
            }
            if a.is_ended() != want {
                acc.sink.add(if want { "long-run:is_ended-not-reported" } else { "long-run:is_ended-reported-early" }, rank, || (format!("after advance({long}) and {} steps of {step} s: is_ended() = {}, time in state {:?}, duration() {reported}", i + 1, a.is_ended(), clock), mk()));
                break;
            }
            was_ended = a.is_ended();
        }
        if !was_ended {
            acc.sink.add("long-run:never-ended", (6u64 << 56) | (ci as u64) << 32, || (format!("advance({long}) and {n} steps of {step} s: never ended (duration {reported})"), json!({"timeline": spec.to_json()})));
        }
    }
}

/// C07 companion with non-dyadic timings and steps: the statement as worded against the *reported*
/// duration: is_ended <=> time in state (as f32 seconds) >= Timeline::duration(); sticky; values
/// bit-constant once ended.
fn c07_nondyadic(acc: &mut Acc) {
    let kf2 = |a0: f32, a1: f32| vec![Kf { pos: 0.0, a: Some(a0), k: Some(1), d: None, easing: None }, Kf { pos: 1.0, a: Some(a1), k: Some(9), d: None, easing: None }];
    let specs: Vec<Vec<TlSpec>> = vec![
        vec![TlSpec { kfs: kf2(0.1, 12.7), default_easing: 4, timing: Timing::new(0.3, 0.1, Rep::Times(2), false) }],
        // total 0.3 = 3 x 0.1: a single advance(0.3) lands exactly on the end instant
        vec![TlSpec { kfs: kf2(0.0, 100.0), default_easing: 0, timing: Timing::new(0.1, 0.0, Rep::Times(2), false) }],
        vec![TlSpec { kfs: kf2(-3.3, 0.9), default_easing: 0, timing: Timing::new(0.7, 0.0, Rep::None, true) }],
        vec![TlSpec { kfs: kf2(5.5, -5.5), default_easing: 5, timing: Timing::new(1.1, 0.3, Rep::Times(1), false) }],
        vec![TlSpec { kfs: kf2(1.0, 2.0), default_easing: 0, timing: Timing::new(0.3, 0.0, Rep::None, false) }, TlSpec { kfs: kf2(7.0, 8.0), default_easing: 0, timing: Timing::new(0.7, 0.1, Rep::Times(1), false) }],
    ];
    let steps = [0.1f32, 0.05, 0.7, 1.0, 0.3];
    for (si, sp) in specs.iter().enumerate() {
        let merged = MergedTimeline::of(sp.iter().map(|s| s.build()).collect::<Vec<_>>());
        let reported = merged.duration();
        for len in 1..=6usize {
            for code in 0..5usize.pow(len as u32) {
                let mut a: Anim = StateAnimatorBuilder::<S4, PTimeline>::new().from_state(S4::X).from_values(initial_values()).on(S4::X, merged.clone()).build();
                let mut c = code;
                let mut was_ended = false;
                let mut frozen: Option<P> = None;
                acc.histories += 1;
                for i in 0..len {
                    let st = steps[c % 5];
                    c /= 5;
                    a.advance(st);
                    acc.ops += 1;
                    acc.checks += 1;
                    let t = a.verif_time_in_state().as_secs_f32();
                    let want = t >= reported;
                    let rank = (5u64 << 56) | (si as u64) << 48 | (len as u64) << 40 | (code as u64) << 4 | i as u64;
                    let mk = || json!({"timelines": sp.iter().map(|s| s.to_json()).collect::<Vec<_>>(), "steps_code": code, "length": len, "steps_alphabet": steps});
                    if want != was_ended {
                        acc.nontrivial += 1;
                    }
                    if a.is_ended() != want {
                        acc.sink.add("non-dyadic:is_ended-disagrees-with-reported-duration", rank, || (format!("is_ended() = {} but time in state {t} vs duration() {reported}", a.is_ended()), mk()));
                    }
                    if was_ended && !a.is_ended() {
                        acc.sink.add("non-dyadic:is_ended-not-sticky", rank, || ("is_ended went back to false".into(), mk()));
                    }
                    if let Some(f) = &frozen {
                        if f.bits() != a.current_values().bits() {
                            acc.sink.add("non-dyadic:values-move-after-end", rank, || (format!("values changed after the end: {:?} -> {:?}", f, a.current_values()), mk()));
                        }
                    }
                    // values are at rest only strictly after the end instant (at t == total the timeline is still on its last active instant)
                    if a.is_ended() && t > reported && frozen.is_none() {
                        frozen = Some(a.current_values().clone());
                    }
                    // at rest on the terminal values (tolerance: float rounding of the non-dyadic landing)
                    if a.is_ended() {
                        let mut term = initial_values();
                        merged.update(&mut term, f32::MAX);
                        let v = a.current_values();
                        if (v.a - term.a).abs() > 1e-3 * term.a.abs().max(1.0) || (v.k - term.k).abs() > 1 {
                            acc.sink.add("non-dyadic:ended-but-not-on-terminal-values", rank, || (format!("is_ended() but values {:?}, terminal values {:?}", v, term), mk()));
                        }
                    }
                    was_ended = a.is_ended();
                }
            }
        }
    }
}

fn near_total(sh: &RefShape, t: f32) -> bool {
    sh.total.map(|tot| (t as f64 - tot).abs() < 1e-4).unwrap_or(false)
}

// ------------------------------------------------------------------------------------------------
// Exploration drivers

fn alphabet(prop: Prop) -> Vec<Op> {
    let mut v = vec![Op::Adv(0.0), Op::Adv(1.0 / 512.0), Op::Adv(0.25), Op::Adv(1.0), Op::Adv(8.0)];
    if prop == Prop::C07 {
        v.push(Op::Adv(1.0 - 1.0 / 512.0));
        v.extend([Op::Set(S4::X), Op::Set(S4::Y), Op::Set(S4::U1)]);
    } else if prop == Prop::C06 {
        v.push(Op::Adv(0.5));
        // a very long frame: at 2^15 s the f32 ulp (2^-8 s) exceeds the smallest step, while the
        // Duration clock stays exact - any schedule-dependent rounding of the clock shows up
        v.push(Op::Adv(32768.0));
        v.extend([Op::Set(S4::X), Op::Set(S4::Y), Op::Set(S4::U1)]);
    } else {
        if prop == Prop::C05 {
            // a very long frame: the time-in-state hook must still equal the exact Duration sum
            v.push(Op::Adv(32768.0));
        }
        v.extend(S4_ALL.iter().map(|s| Op::Set(*s)));
    }
    v
}

fn explore_full(cfg: &Config, init: S4, ops: &[Op], depth: usize, prop: Prop, rank0: u64, acc: &mut Acc) {
    let n = ops.len();
    let mut h: Vec<Op> = vec![];
    for d in 1..=depth {
        let total = (n as u64).pow(d as u32);
        for code in 0..total {
            h.clear();
            let mut c = code;
            for _ in 0..d {
                h.push(ops[(c % n as u64) as usize]);
                c /= n as u64;
            }
            h.reverse();
            // only histories whose last operation is relevant to the property need executing
            let relevant = match prop {
                Prop::C04 => matches!(h[d - 1], Op::Set(_)),
                _ => true,
            };
            if relevant {
                check_history(cfg, init, &h, prop, rank0 | (d as u64) << 32 | code.min(0xffff_ffff), acc);
            }
        }
    }
}


/// Canonical key of the animator's complete mutable state: current state, time in state, pause
/// record, current values, and the start values each animated state's timeline was last blended
/// from (the timelines' only mutable part). Equal keys have equal futures.
fn state_key(o: &Obs, m: &RefAnim) -> Vec<u64> {
    let mut k = vec![o.state as u64, o.time.as_nanos() as u64, o.ended as u64];
    match &o.paused {
        Some((s, t)) => k.extend([1, *s as u64, t.as_nanos() as u64]),
        None => k.extend([0, 0, 0]),
    }
    k.extend(o.values.bits());
    for s in [S4::X, S4::Y, S4::U2] {
        match &m.entry[sidx(s)] {
            Some(p) => k.extend(p.bits()),
            None => k.extend([u64::MAX; 5]),
        }
    }
    k
}

/// De-duplicating breadth-first pass: explores histories level by level, keeps one representative
/// history per canonical state, evaluates the property's clauses on every explored transition.
/// Advances are disabled once the time in state has reached `horizon` (finite space); stops at
/// `cap` distinct states. Returns (distinct states, transitions, max depth, cap hit).
fn explore_bfs(cfg: &Config, init: S4, horizon: Duration, cap: usize, prop: Prop, rank0: u64, acc: &mut Acc) -> (u64, u64, u64, bool) {
    let ops = [Op::Adv(0.25), Op::Adv(1.0), Op::Adv(8.0), Op::Set(S4::X), Op::Set(S4::Y), Op::Set(S4::U1), Op::Set(S4::U2)];
    let mut seen: std::collections::HashSet<Vec<u64>> = std::collections::HashSet::new();
    let real0 = cfg.build(init);
    seen.insert(state_key(&observe(&real0), &RefAnim::new(init)));
    // frontier entries: (history, time in state at its end)
    let mut frontier: Vec<(Vec<Op>, Duration)> = vec![(vec![], Duration::ZERO)];
    let (mut transitions, mut depth, mut capped) = (0u64, 0u64, false);
    while !frontier.is_empty() && !capped {
        depth += 1;
        let mut next = vec![];
        'level: for (h, t_end) in &frontier {
            for op in &ops {
                if matches!(op, Op::Adv(_)) && *t_end >= horizon {
                    continue;
                }
                let mut h2 = h.clone();
                h2.push(*op);
                transitions += 1;
                let relevant = !(prop == Prop::C04 && matches!(op, Op::Adv(_)));
                let (post, model) = if relevant {
                    check_history(cfg, init, &h2, prop, rank0 | (2 << 48) | (depth << 40) | (transitions & 0xff_ffff_ffff), acc)
                } else {
                    // advances carry no C04 clause; still needed to reach the successor state
                    let mut scratch = Acc::default();
                    let r = check_history(cfg, init, &h2, Prop::C06, 0, &mut scratch);
                    acc.ops += scratch.ops;
                    r
                };
                let key = state_key(&post, &model);
                if seen.insert(key) {
                    next.push((h2, post.time));
                    if seen.len() >= cap {
                        capped = true;
                        break 'level;
                    }
                }
            }
        }
        frontier = next;
    }
    (seen.len() as u64, transitions, depth, capped)
}

/// Deviation-bounded pass: default action advance(1/4); every history of length <= len with at
/// most k deviations (any other symbol of the alphabet).
fn explore_deviations(cfg: &Config, init: S4, ops: &[Op], len: usize, k: usize, prop: Prop, rank0: u64, acc: &mut Acc) -> u64 {
    let default = Op::Adv(0.25);
    let others: Vec<Op> = ops.iter().filter(|o| **o != default).cloned().collect();
    let mut count = 0u64;
    fn rec(cfg: &Config, init: S4, others: &[Op], default: Op, len: usize, k: usize, h: &mut Vec<Op>, used: usize, prop: Prop, rank0: u64, acc: &mut Acc, count: &mut u64) {
        if !h.is_empty() {
            *count += 1;
            let relevant = match prop {
                Prop::C04 => matches!(h[h.len() - 1], Op::Set(_)),
                _ => true,
            };
            if relevant {
                check_history(cfg, init, h, prop, rank0 | (1 << 50) | (used as u64) << 44 | (h.len() as u64) << 36 | (*count & 0xffff_ffff), acc);
            }
        }
        if h.len() == len {
            return;
        }
        h.push(default);
        rec(cfg, init, others, default, len, k, h, used, prop, rank0, acc, count);
        h.pop();
        if used < k {
            for o in others {
                h.push(*o);
                rec(cfg, init, others, default, len, k, h, used + 1, prop, rank0, acc, count);
                h.pop();
            }
        }
    }
    rec(cfg, init, &others, default, len, k, &mut vec![], 0, prop, rank0, acc, &mut count);
    count
}

/// The companion families of a property (cases outside the pool x history space; their replay files carry no
/// pool configuration and are replayed by re-running the - small - companions).
fn companions(prop: Prop, thorough: bool, acc: &mut Acc) {
    if prop == Prop::C07 {
        c07_nondyadic(acc);
        c07_long_run(acc);
        c07_over_on_entry(acc);
        c07_exact_landing(acc);
    }
    if prop == Prop::C06 {
        c06_tiny_steps(acc);
        c06_huge_steps(acc);
        c06_absorbed_cycle(acc);
    }
    if prop == Prop::C04 || prop == Prop::C05 {
        nondyadic_companion(prop, thorough, acc);
    }
    if prop == Prop::C05 || prop == Prop::C07 {
        state_type_twin(thorough, acc);
    }
    if prop == Prop::C05 {
        c05_huge_step(acc);
        c05_omitted_from_values(acc);
    }
    if prop == Prop::C04 {
        c04_drift(acc);
    }
}

pub fn run(run: Run, prop: Prop) -> ! {
    let thorough = run.is_thorough();
    let bfs_cap: usize = if thorough { 150_000 } else { 12_000 };
    let ops = alphabet(prop);
    let (depth, dev_len, dev_k) = match (prop, thorough) {
        (Prop::C04, false) => (6, 12, 3),
        (Prop::C04, true) => (7, 14, 4),
        (Prop::C05, false) => (5, 12, 3),
        (Prop::C05, true) => (6, 14, 4),
        (Prop::C06, false) => (5, 10, 2),
        (Prop::C06, true) => (6, 12, 3),
        (Prop::C07, false) => (5, 12, 3),
        (Prop::C07, true) => (6, 14, 4),
    };
    // configurations: all (X shape, Y shape) pairs; easing variant alternates in quick, both in thorough;
    // initial state X (animated from non-default initial values) or U1 (every 5th config)
    let mut cfgs: Vec<(usize, usize, u8, S4, Option<usize>)> = vec![];
    // The last shape (negative delay) is never the initial state's timeline (the animator does not evaluate
    // at construction, which is outside the statements) and is left out of the C04 no-jump runs entirely
    // (entering a timeline that is already half-way through legitimately moves the values at once).
    // (C05 states the values after every operation, whatever the state before the first one was: there the
    // negative-delay shape is an initial timeline too - the first advance, even of zero length, puts the values on
    // it; C06 likewise, leaving out the histories whose first evaluation is a zero-length advance)
    let npx = pool(0).len() - if prop == Prop::C05 || prop == Prop::C06 { 0 } else { 1 };
    let np = pool(0).len() - if prop == Prop::C04 { 1 } else { 0 };
    for xi in 0..npx {
        for yi in 0..np {
            let idx = xi * np + yi;
            let init = if idx % 5 == 4 { S4::U1 } else { S4::X };
            // every 4th configuration (thorough: an extra copy of every configuration) animates U2 too
            let z = Some((xi * 3 + yi * 5 + 1) % npx);
            if thorough {
                cfgs.push((xi, yi, 0, init, None));
                cfgs.push((xi, yi, 1, init, None));
                cfgs.push((xi, yi, (idx % 2) as u8, init, z));
            } else {
                cfgs.push((xi, yi, (idx % 2) as u8, init, if idx % 4 == 3 { z } else { None }));
            }
        }
    }
    // split each configuration's exploration by first operation for load balance
    let items: Vec<(usize, usize)> = (0..cfgs.len()).flat_map(|c| (0..ops.len() + 1).map(move |f| (c, f))).collect();
    let acc = par_fold(
        items.len(),
        Acc::default,
        |ii, acc| {
            let (ci, fo) = items[ii];
            let (xi, yi, variant, init, zi) = cfgs[ci];
            let cfg = Config::with_third(xi, yi, variant, zi);
            let rank0 = (ci as u64) << 52;
            if fo == ops.len() {
                acc.configs += 1;
                explore_deviations(&cfg, init, &ops, dev_len, dev_k, prop, rank0, acc);
                if thorough || yi == xi || yi == (xi + 1) % np {
                    let (st, tr, dp, capped) = explore_bfs(&cfg, init, Duration::from_secs(10), bfs_cap, prop, rank0, acc);
                    acc.bfs_states += st;
                    acc.bfs_transitions += tr;
                    acc.bfs_max_depth = acc.bfs_max_depth.max(dp);
                    acc.bfs_capped += capped as u64;
                    acc.bfs_configs += 1;
                }
                if prop == Prop::C06 && yi == 0 {
                    c06_nonrepresentable(&cfg, rank0 | (1 << 51), acc);
                }
                if acc.samples.len() < 2 && ci % 37 == 5 {
                    let h = [Op::Adv(0.25), Op::Set(S4::U1), Op::Adv(1.0), Op::Set(S4::Y), Op::Adv(0.25), Op::Set(S4::X)];
                    let mut real = cfg.build(init);
                    let mut trace = vec![];
                    for op in &h {
                        apply(&mut real, op);
                        let o = observe(&real);
                        trace.push(json!({"op": op.name(), "state": format!("{:?}", o.state), "values": o.values.to_json(), "is_ended": o.ended, "time_in_state_s": o.time.as_secs_f64()}));
                    }
                    acc.samples.push(json!({"config": cfg.to_json(), "trace": trace}));
                }
            } else {
                // all histories (length 1..=depth) whose FIRST operation is ops[fo]
                let n = ops.len();
                let mut h: Vec<Op> = vec![];
                for d in 1..=depth {
                    let total = (n as u64).pow((d - 1) as u32);
                    for code in 0..total {
                        h.clear();
                        h.push(ops[fo]);
                        let mut c = code;
                        let mut tail = vec![];
                        for _ in 1..d {
                            tail.push(ops[(c % n as u64) as usize]);
                            c /= n as u64;
                        }
                        tail.reverse();
                        h.extend(tail);
                        let relevant = match prop {
                            Prop::C04 => matches!(h[d - 1], Op::Set(_)),
                            _ => true,
                        };
                        if relevant {
                            check_history(&cfg, init, &h, prop, rank0 | (d as u64) << 40 | (fo as u64) << 36 | code.min(0xf_ffff_ffff), acc);
                        }
                    }
                }
            }
        },
        merge,
    );
    let _ = explore_full;
    let mut acc = acc;
    companions(prop, thorough, &mut acc);
    let id = format!("{prop:?}");
    let mut cov = Map::new();
    cov.insert("states".into(), json!(acc.histories));
    cov.insert("transitions".into(), json!(acc.ops));
    cov.insert("traces_validated_against_impl".into(), json!(acc.histories));
    cov.insert("evaluations".into(), json!(acc.checks));
    cov.insert("distinct_nontrivial".into(), json!(acc.nontrivial));
    cov.insert("rule".into(), json!(format!("{} animator configurations (X and Y timelines from a pool of 23 shapes: finite, to-only, mid-keyframe-only, delayed, Times 1, reversing, infinite, infinite-reversing-delayed, merged disjoint finite+infinite, merged overlapping, partial, empty merged list, infinite with delay = cycle, delayed Times 2, merged endless + delayed Times 1 reversing with one cycle length, merged short Times 2 + long non-repeating, a property keyed only at 0%, 17 keyframes over 16 s, a 32768 s eased timeline, keyframe-less 2 s, merged finite + longer keyframe-less, two keyframes tied at 100%, negative delay (not in C04 runs); two un-animated states (in every 4th configuration - thorough: an extra copy of every configuration - U2 is a third animated state, so A -> B -> C -> A histories occur); Linear/polynomial or built-in Bezier easings; non-default initial values; initial state X or U1) x ALL histories of length 1..={} over the alphabet [{}] (a state is the history: the real animator is rebuilt and replayed; clauses are evaluated on the last operation of each history, so every operation of every history is checked once) + deviation-bounded pass: default advance(1/4), all histories of length <= {} with <= {} deviations + de-duplicating breadth-first pass keyed on the complete mutable state (counts under bfs_pass; a capped level is reported, everything below the cap depth is complete). {}", cfgs.len(), depth, ops.iter().map(|o| o.name()).collect::<Vec<_>>().join(", "), dev_len, dev_k, match prop {
        Prop::C04 => "Oracle: current_values bit-identical before/after every set_state; same-state set_state leaves time, pause record and is_ended unchanged. non-trivial = set_state calls that change the state",
        Prop::C05 => "Oracle: RefAnimator stepped alongside (current_state, time in state via hook, live pause record via hook, values = state's merged timeline started from the values observed at entry, evaluated at the time in state; un-animated fields bit-identical). non-trivial = operations after which the current state animates at least one property",
        Prop::C06 => "Companion: every sequence of 2..5 non-representable steps (0.1,0.2,0.3,1/3,0.7) vs one advance of their f32 sum, values within float rounding (1e-3 of the value scale; sequences ending within 2e-5 s of a reference discontinuity skipped). Oracle: the history and its normal form (consecutive advances merged, zero advances and same-state changes dropped, detours X|Y -> U1 -> back removed: the animation is frozen meanwhile) end with bit-identical values, state and is_ended; advance(0) is a no-op. non-trivial = histories that differ from their normal form",
        Prop::C07 => "Companion: 5 non-dyadic timelines (cycles 0.1/0.3/0.7/1.1, delays 0/0.1/0.3, a merged pair) x all step sequences of length <= 6 over {0.1,0.05,0.7,1.0,0.3}: is_ended <=> time in state >= the reported duration(), sticky, values bit-constant after the end. Oracle: is_ended <=> no timeline or time in state >= max over components of delay+cycle*(repeats+1), never with an infinite component; sticky; values bit-constant under advances after the end and equal to the reference terminal values. non-trivial = operations across which the reference end status flips",
    })));
    cov.insert("exhaustive".into(), json!(true));
    cov.insert("depth".into(), json!(depth));
    cov.insert("deviation_bound_completed".into(), json!(dev_k));
    cov.insert("deviation_horizon".into(), json!(dev_len));
    cov.insert("bfs_pass".into(), json!({"configurations": acc.bfs_configs, "distinct_canonical_states": acc.bfs_states, "transitions": acc.bfs_transitions, "max_depth_reached": acc.bfs_max_depth, "state_cap_per_configuration": bfs_cap, "configurations_that_hit_the_cap": acc.bfs_capped, "alphabet": "advance 1/4, 1, 8; set_state X, Y, U1, U2", "advance_horizon_s": 10, "key": "current state, time in state, pause record, is_ended, value bits, start values of X and Y"}));
    cov.insert("distinct_observed_outcomes_capped".into(), json!(acc.outcomes.len()));
    cov.insert("samples".into(), json!(acc.samples));
    let _ = id;
    run.finish(acc.sink, cov, vec!["dyadic step alphabet: Duration sums and f32 seconds are exact".into(), "entry values of a blend are observed from the real animator (C04 asserts they equal the pre-call values)".into()])
}

pub fn replay(case: &Value, prop: Prop) -> bool {
    let c = &case["config"];
    if c["X"]["pool_index"].is_null() || !case["twin"].is_null() || !case["companion"].is_null() {
        // a companion-family case: re-run the property's companions and report the signatures they raise
        let mut acc = Acc::default();
        companions(prop, false, &mut acc);
        for (s, v) in &acc.sink.map {
            println!("{s}: {}", v.desc);
        }
        return acc.sink.map.is_empty();
    }
    let cfg = Config::with_third(c["X"]["pool_index"].as_u64().unwrap_or(0) as usize, c["Y"]["pool_index"].as_u64().unwrap_or(0) as usize, c["easing_variant"].as_u64().unwrap_or(0) as u8, c["U2"]["pool_index"].as_u64().map(|z| z as usize));
    let init = *S4_ALL.iter().find(|x| Some(format!("{x:?}").as_str()) == case["initial_state"].as_str()).unwrap_or(&S4::X);
    let h: Vec<Op> = case["history"].as_array().map(|a| a.iter().map(Op::from_json).collect()).unwrap_or_default();
    let mut acc = Acc::default();
    // print the trace, then check every prefix
    let mut real = cfg.build(init);
    println!("initial: {:?}", observe(&real));
    for op in &h {
        apply(&mut real, op);
        println!("{} -> {:?}", op.name(), observe(&real));
    }
    for n in 1..=h.len() {
        check_history(&cfg, init, &h[..n], prop, 0, &mut acc);
    }
    for (s, v) in &acc.sink.map {
        println!("{s}: {}", v.desc);
    }
    acc.sink.map.is_empty()
}
