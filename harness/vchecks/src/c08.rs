//! C08 — properties a timeline does not animate are never touched (E1 part; the animator part
//! (ii) runs inside the E2 explorer, the struct-shape part (iii) inside E3).

use crate::common::*;
use mina::prelude::*;
use serde_json::{json, Map, Value};
use vlib::spec::*;
use vlib::util::*;

#[derive(Default)]
struct Acc {
    sink: VSink,
    timelines: u64,
    evals: u64,
    field_checks: u64,
    samples: Vec<Value>,
}

fn targets() -> [P; 3] {
    [P::sentinel(), P { a: 3.5, k: 41, d: -0.125, u: 9.0, z: -2.0 }, P::default()]
}

/// which of (a,k) have at least one defining keyframe
fn defined(kfs: &[Kf]) -> (bool, bool) {
    (kfs.iter().any(|k| k.a.is_some()), kfs.iter().any(|k| k.k.is_some()))
}

fn check_untouched(label: &str, got: &P, init: &P, def: (bool, bool), empty: bool, rank: u64, acc: &mut Acc, mk: impl Fn() -> Value, t: f32) {
    let gb = got.bits();
    let ib = init.bits();
    let names = ["a", "k", "d", "u", "z"];
    let animated = [def.0 && !empty, def.1 && !empty, false, false, false];
    for i in 0..5 {
        if animated[i] {
            continue;
        }
        acc.field_checks += 1;
        if gb[i] != ib[i] {
            let why = match i {
                4 => "field-without-animate-attribute",
                3 => "animated-field-never-keyframed",
                _ if empty => "empty-timeline",
                _ => "property-without-keyframe",
            };
            acc.sink.add(&format!("{label}:{why}:{}", names[i]), rank, || {
                (format!("t={t}: field {} changed from bits {:x} to {:x}", names[i], ib[i], gb[i]), mk())
            });
        }
    }
}


/// Family on `P2` (documented / attributed markers, Lerp-able un-marked fields) and on the remote proxy
/// `R3Proxy` -> `R3` (markers on some fields only), driven through `keyframe_from` (which copies whole
/// values) and explicit setters: the un-marked fields must keep their bits at every time of every timing
/// configuration.
macro_rules! marked_family {
    ($fname:ident, $api:ident, $val:ident, $sig:expr, $decl:expr) => {
        fn $fname(acc: &mut Acc) {
            let vals = [$val { a: 10.0, k: 20, z: 30.0, w: 40 }, $val { a: -5.0, k: -6, z: -7.0, w: 8 }];
            let targets = [$val { a: 1.5, k: 2, z: f32::from_bits(0x7fc0_0bad), w: 77 }, $val { a: 0.0, k: 0, z: 3.25, w: 1 }];
            let positions = [0.0f32, 0.5, 1.0];
            for th in theta() {
                for (vi, v) in vals.iter().enumerate() {
                    for mask in 1..8u32 {
                        // keyframes at the selected positions, alternating keyframe_from and explicit setters
                        let mut b = $api::timeline().duration_seconds(th.cycle).delay_seconds(th.delay).repeat(th.rep.real()).reverse(th.reverse);
                        for (pi, &pos) in positions.iter().enumerate() {
                            if mask & (1 << pi) != 0 {
                                b = if (pi + vi) % 2 == 0 { b.keyframe($api::keyframe_from(v, pos)) } else { b.keyframe($api::keyframe(pos).a(v.a * 2.0).k(v.k * 2)) };
                            }
                        }
                        let tl = b.build();
                        let mut tls = tl.clone();
                        tls.start_with(&vals[1 - vi]);
                        acc.timelines += 2;
                        for tlx in [&tl, &tls] {
                            for init in &targets {
                                for t in tau(&th, 16) {
                                    let mut got = init.clone();
                                    tlx.update(&mut got, t);
                                    acc.evals += 1;
                                    acc.field_checks += 2;
                                    if got.z.to_bits() != init.z.to_bits() || got.w != init.w {
                                        acc.sink.add($sig, mask as u64, || {
                                            (format!("t={t}: un-marked fields changed: z {} -> {}, w {} -> {} (keyframes via keyframe_from / setters, mask {mask})", init.z, got.z, init.w, got.w), json!({"struct": $decl, "timing": th.to_json(), "time": fj(t)}))
                                        });
                                    }
                                }
                            }
                        }
                    }
                }
            }
        }
    };
}
marked_family!(p2_family, P2, P2, "p2:field-without-animate-attribute", "P2 { /// doc #[animate] a: f32, #[allow(dead_code)] #[animate] k: i32, /// doc z: f32, w: u8 }");
marked_family!(r3_family, R3Proxy, R3, "remote-proxy:field-without-animate-attribute", "#[animate(remote = \"R3\")] R3Proxy { #[animate] a: f32, #[animate] k: i32, z: f32, w: u8 }");

/// Animator histories: after every operation of every history (depth <= 4; advances 1/4 and 1; three animated
/// states X, Y, U2 and the un-animated U1) the properties for which the state the animator is in AFTER the operation
/// has no keyframe (all of them if it has no timeline) keep the bits they had before the operation - they carry
/// whatever earlier states left in them.
fn animator_family(acc: &mut Acc) {
    use crate::anim::{apply, pool, Config, Op};
    let np = pool(0).len() - 1;
    let ops = [Op::Adv(0.25), Op::Adv(1.0), Op::Set(S4::X), Op::Set(S4::Y), Op::Set(S4::U1), Op::Set(S4::U2)];
    let animates = |specs: &[TlSpec]| -> (bool, bool, bool) { (specs.iter().any(|s| s.kfs.iter().any(|k| k.a.is_some())), specs.iter().any(|s| s.kfs.iter().any(|k| k.k.is_some())), specs.iter().any(|s| s.kfs.iter().any(|k| k.d.is_some()))) };
    let r = par_fold(
        np,
        Acc::default,
        |xi, acc| {
            for step in [1usize, 4, 9] {
                let (yi, zi) = ((xi + step) % np, (xi + 2 * step + 1) % np);
                let cfg = Config::with_third(xi, yi, (xi % 2) as u8, Some(zi));
                let per_state = |s: S4| match s {
                    S4::X => animates(&cfg.specs[0]),
                    S4::Y => animates(&cfg.specs[1]),
                    S4::U2 => animates(&cfg.zspecs),
                    S4::U1 => (false, false, false),
                };
              // every initial state, not only the enum's default one; the governing state is the one the caller
              // configured / set (not read back from the animator)
              for init in S4_ALL {
                let mut code = [0usize; 4];
                'outer: loop {
                    let mut a = cfg.build(init);
                    let mut cur = init;
                    acc.timelines += 1;
                    for (i, &oi) in code.iter().enumerate() {
                        let before = a.current_values().clone();
                        apply(&mut a, &ops[oi]);
                        if let Op::Set(s) = ops[oi] {
                            cur = s;
                        }
                        acc.evals += 1;
                        let after = a.current_values().clone();
                        let (an_a, an_k, an_d) = per_state(cur);
                        acc.field_checks += 5;
                        let bad = (!an_a && after.a.to_bits() != before.a.to_bits()) || (!an_k && after.k != before.k) || (!an_d && after.d.to_bits() != before.d.to_bits()) || after.u.to_bits() != before.u.to_bits() || after.z.to_bits() != before.z.to_bits();
                        if bad {
                            let h: Vec<String> = code[..=i].iter().map(|&o| ops[o].name()).collect();
                            acc.sink.add("animator:property-not-animated-by-the-current-state-changed", (9u64 << 56) | (xi as u64) << 32 | i as u64, || {
                                (format!("initial state {init:?}, after [{}]: state {:?} (animator reports {:?}) animates (a,k,d) = {:?}, yet values went {:?} -> {:?} | X={} Y={} U2={}", h.join(", "), cur, a.current_state(), (an_a, an_k, an_d), before, after, cfg.names[0], cfg.names[1], pool(0)[zi].0), json!({"config": cfg.to_json(), "initial_state": format!("{init:?}"), "history": h}))
                            });
                            break;
                        }
                    }
                    let mut p = 3;
                    loop {
                        code[p] += 1;
                        if code[p] < ops.len() {
                            break;
                        }
                        code[p] = 0;
                        if p == 0 {
                            break 'outer;
                        }
                        p -= 1;
                    }
                }
              }
            }
        },
        |a, b| {
            a.sink.merge(b.sink);
            a.timelines += b.timelines;
            a.evals += b.evals;
            a.field_checks += b.field_checks;
        },
    );
    acc.sink.merge(r.sink);
    acc.timelines += r.timelines;
    acc.evals += r.evals;
    acc.field_checks += r.field_checks;
}

pub fn run(run: Run) -> ! {
    let nmax = if run.is_thorough() { 4 } else { 3 };
    let thetas = theta();
    let grids: Vec<Vec<f32>> = thetas.iter().map(|th| tau(th, 16)).collect();
    let tg = targets();
    let vs = vstar();
    let mut acc = for_each_kfs(
        nmax,
        &GRID5,
        &[0u8, 3u8],
        false,
        Acc::default,
        |acc, n, idx, de, kfs, rank| {
            let def = defined(kfs);
            for (ti, th) in thetas.iter().enumerate() {
                let spec = TlSpec { kfs: kfs.clone(), default_easing: de, timing: *th };
                let tl = spec.build();
                let mut tls = tl.clone();
                tls.start_with(&vs);
                acc.timelines += 2;
                let rank = rank | ti as u64;
                for (tlx, st) in [(&tl, None), (&tls, Some(&vs))] {
                    for init in &tg {
                        for &t in &grids[ti] {
                            let got = eval_real(tlx, t, init);
                            acc.evals += 1;
                            check_untouched("single", &got, init, def, kfs.is_empty(), rank, acc, || case_json(&spec, st, t, init), t);
                        }
                    }
                }
                if acc.samples.len() < 2 && n == nmax && idx % 5003 == 11 && ti == 1 {
                    let t = grids[ti][9];
                    let mut c = case_json(&spec, None, t, &tg[0]);
                    c["got"] = eval_real(&tl, t, &tg[0]).to_json();
                    acc.samples.push(c);
                }
            }
        },
        |a, b| {
            a.sink.merge(b.sink);
            a.timelines += b.timelines;
            a.evals += b.evals;
            a.field_checks += b.field_checks;
            if a.samples.len() < 3 {
                a.samples.extend(b.samples);
            }
        },
    );
    // merged timelines: every ordered pair (x in T(<=2), y in T(<=1)) x 3 timing pairs
    let left: Vec<Vec<Kf>> = (0..=2usize).flat_map(|n| (0..count_t(n, 5)).filter_map(move |i| decode_t(n, &GRID5, i, 1, 2, false))).collect();
    let right: Vec<Vec<Kf>> = (0..=1usize).flat_map(|n| (0..count_t(n, 5)).filter_map(move |i| decode_t(n, &GRID5, i, 1, 2, false))).collect();
    let tpairs = [(0usize, 1usize), (3, 4), (2, 5)];
    let macc = par_fold(
        left.len(),
        Acc::default,
        |i, acc| {
            for (j, r) in right.iter().enumerate() {
                for (tp, &(t1, t2)) in tpairs.iter().enumerate() {
                    let s1 = TlSpec { kfs: left[i].clone(), default_easing: 0, timing: thetas[t1] };
                    let s2 = TlSpec { kfs: r.clone(), default_easing: 3, timing: thetas[t2] };
                    let m = MergedTimeline::of([s1.build(), s2.build()]);
                    acc.timelines += 1;
                    let d1 = defined(&s1.kfs);
                    let d2 = defined(&s2.kfs);
                    let def = (d1.0 || d2.0, d1.1 || d2.1);
                    let rank = (1u64 << 60) | (i as u64) << 20 | (j as u64) << 4 | tp as u64;
                    for init in &tg[..2] {
                        for &t in grids[t1].iter().chain(grids[t2].iter()) {
                            let mut got = init.clone();
                            m.update(&mut got, t);
                            acc.evals += 1;
                            check_untouched("merged", &got, init, def, false, rank, acc, || json!({"merged": [s1.to_json(), s2.to_json()], "time": fj(t), "target_before": init.to_json()}), t);
                        }
                    }
                }
            }
        },
        |a, b| {
            a.sink.merge(b.sink);
            a.timelines += b.timelines;
            a.evals += b.evals;
            a.field_checks += b.field_checks;
        },
    );
    acc.sink.merge(macc.sink);
    acc.timelines += macc.timelines;
    acc.evals += macc.evals;
    acc.field_checks += macc.field_checks;
    p2_family(&mut acc);
    r3_family(&mut acc);
    animator_family(&mut acc);
    // empty merged list
    let empty: MergedTimeline<PTimeline> = MergedTimeline::of(Vec::<PTimeline>::new());
    for init in &tg {
        for t in [0.0f32, 0.5, 1.0, 1e6, f32::MAX] {
            let mut got = init.clone();
            empty.update(&mut got, t);
            acc.evals += 1;
            check_untouched("merged-empty", &got, init, (false, false), true, 0, &mut acc, || json!({"merged": [], "time": fj(t)}), t);
        }
    }
    let mut cov = Map::new();
    cov.insert("states".into(), json!(acc.timelines));
    cov.insert("transitions".into(), json!(acc.evals));
    cov.insert("traces_validated_against_impl".into(), json!(acc.evals));
    cov.insert("evaluations".into(), json!(acc.evals));
    cov.insert("distinct_nontrivial".into(), json!(acc.field_checks));
    cov.insert("rule".into(), json!(format!("C01 keyframe space up to {nmax} keyframes x 6 timings x {{plain, start_with}} x 3 prior target contents (NaN-payload sentinels, ordinary values, Default) x time grid (all phases); plus all merged pairs T(<=2) x T(<=1) x 3 timing pairs, the empty merged list, and a second struct P2 (doc comments / #[allow] before the #[animate] markers, Lerp-able un-marked fields) and a remote proxy R3Proxy -> R3 with markers on some fields only, both driven through keyframe_from and setters; plus animator histories (every pool shape as X with three partner assignments for Y and U2, started in each of the four states - not only the enum's default one -, all histories to depth 4: a property that the state the caller configured / set does not keyframe keeps its bits across every operation); oracle: every field that no component keyframes (incl. the never-keyframed #[animate] field u, the f64 field d and the non-#[animate] field z; the whole struct for an empty keyframe set) is bit-identical after update; non-trivial = individual (evaluation, field) bit comparisons")));
    cov.insert("exhaustive".into(), json!(true));
    cov.insert("samples".into(), json!(acc.samples));
    run.finish(acc.sink, cov, vec!["the full family of struct shapes is C17's (every compiled shape there asserts sentinels on its un-animated fields); here: P, P2 and the remote proxy R3Proxy".into(), "longer animator histories are the E2 explorer's (C04-C07 run the same untouched-field oracle to depth 6-7)".into()])
}

pub fn replay(case: &Value) -> bool {
    if !case["history"].is_null() {
        // animator family: the family is small, re-run it whole
        let mut acc = Acc::default();
        animator_family(&mut acc);
        for (s, v) in &acc.sink.map {
            println!("{s}: {}", v.desc);
        }
        return acc.sink.map.is_empty();
    }
    if !case["merged"].is_null() {
        let specs: Vec<TlSpec> = case["merged"].as_array().unwrap().iter().map(TlSpec::from_json).collect();
        let m = MergedTimeline::of(specs.iter().map(|s| s.build()).collect::<Vec<_>>());
        let init = P::from_json(&case["target_before"]);
        let mut got = init.clone();
        m.update(&mut got, jf(&case["time"]));
        let def = specs.iter().fold((false, false), |d, s| { let x = defined(&s.kfs); (d.0 || x.0, d.1 || x.1) });
        let mut acc = Acc::default();
        check_untouched("merged", &got, &init, def, specs.is_empty(), 0, &mut acc, || json!(null), 0.0);
        println!("got {got:?}");
        return acc.sink.map.is_empty();
    }
    let (spec, start, t, init) = case_from_json(case);
    let mut tl = spec.build();
    if let Some(s) = &start {
        tl.start_with(s);
    }
    let got = eval_real(&tl, t, &init);
    let mut acc = Acc::default();
    check_untouched("single", &got, &init, defined(&spec.kfs), spec.kfs.is_empty(), 0, &mut acc, || json!(null), t);
    println!("got {got:?}");
    acc.sink.map.is_empty()
}
