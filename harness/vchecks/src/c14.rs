//! C14 — lerp laws for every numeric type (and glam vectors component-wise).

use mina::Lerp;
use serde_json::{json, Map, Value};
use vlib::spec::*;
use vlib::util::*;

#[derive(Default)]
struct Acc {
    sink: VSink,
    evals: u64,
    pairs: u64,
    nontrivial_pairs: u64,
    samples: Vec<Value>,
}

fn merge(a: &mut Acc, b: Acc) {
    a.sink.merge(b.sink);
    a.evals += b.evals;
    a.pairs += b.pairs;
    a.nontrivial_pairs += b.nontrivial_pairs;
    if a.samples.len() < 4 {
        a.samples.extend(b.samples);
    }
}

/// x grid: j/n for j in 0..=n plus `nb` f32 neighbours of 0 (above), 1/2 (both sides), 1 (below);
/// ascending and deduplicated.
fn x_grid(n: u32, nb: i32) -> Vec<f32> {
    let mut v: Vec<f32> = (0..=n).map(|j| j as f32 / n as f32).collect();
    for k in 1..=nb {
        v.push(step_ulps(0.0, k));
        v.push(step_ulps(0.5, k));
        v.push(step_ulps(0.5, -k));
        v.push(step_ulps(1.0, -k));
    }
    v.extend([0.1, 0.2, 0.3, 0.7, 0.9, 1.0 / 3.0]);
    v.sort_by(|a, b| a.total_cmp(b));
    v.dedup();
    v
}

trait Num: Copy + Lerp + PartialEq + std::fmt::Debug + Send + Sync + 'static {
    const NAME: &'static str;
    const IS_INT: bool;
    fn f(self) -> f64;
}
macro_rules! num_int { ($($t:ty),*) => { $(impl Num for $t { const NAME: &'static str = stringify!($t); const IS_INT: bool = true; fn f(self) -> f64 { self as f64 } })* } }
num_int!(u8, i8, u16, i16, u32, i32, u64, i64, usize);
impl Num for f32 {
    const NAME: &'static str = "f32";
    const IS_INT: bool = false;
    fn f(self) -> f64 {
        self as f64
    }
}
impl Num for f64 {
    const NAME: &'static str = "f64";
    const IS_INT: bool = false;
    fn f(self) -> f64 {
        self
    }
}

/// Checks all laws for one (a, b) pair over the ascending x grid.
fn check_pair<T: Num>(a: T, b: T, xs: &[f32], rank: u64, acc: &mut Acc) {
    acc.pairs += 1;
    let (af, bf) = (a.f(), b.f());
    if af != bf {
        acc.nontrivial_pairs += 1;
    }
    let mag = af.abs().max(bf.abs()).max(f64::MIN_POSITIVE);
    let u = ulp32(mag as f32) as f64; // f32 ulp at the operands' magnitude
    // rounding bound of a*(1-x) + b*x evaluated in f32
    let fbound = 3.0 * u;
    let exact_regime = 2.0 * u < 0.5 && T::IS_INT;
    let (lo, hi) = (af.min(bf), af.max(bf));
    let mut prev: Option<(f64, f64)> = None;
    for &x in xs {
        let r = std::panic::catch_unwind(std::panic::AssertUnwindSafe(|| a.lerp(&b, x)));
        acc.evals += 1;
        let mk = || json!({"type": T::NAME, "a": format!("{a:?}"), "b": format!("{b:?}"), "x": fj(x), "x_bits": format!("{:08x}", x.to_bits())});
        let r = match r {
            Ok(r) => r,
            Err(_) => {
                acc.sink.add(&format!("panic:{}", T::NAME), rank, || (format!("{}::lerp({a:?}, {b:?}, {x}) panicked", T::NAME), mk()));
                continue;
            }
        };
        let rf = r.f();
        if !rf.is_finite() {
            acc.sink.add(&format!("non-finite:{}", T::NAME), rank, || (format!("lerp({a:?},{b:?},{x}) = {r:?}"), mk()));
            continue;
        }
        if x == 0.0 && r != a {
            acc.sink.add(&format!("x0:{}", T::NAME), rank, || (format!("lerp({a:?},{b:?},0) = {r:?}"), mk()));
        }
        if x == 1.0 && r != b {
            acc.sink.add(&format!("x1:{}", T::NAME), rank, || (format!("lerp({a:?},{b:?},1) = {r:?}"), mk()));
        }
        let slack = if exact_regime { 0.0 } else { 2.0 * u };
        if af == bf && (rf - af).abs() > slack {
            acc.sink.add(&format!("same-endpoints:{}", T::NAME), rank, || (format!("lerp({a:?},{a:?},{x}) = {r:?}"), mk()));
        }
        if rf < lo - slack || rf > hi + slack {
            acc.sink.add(&format!("between:{}", T::NAME), rank, || (format!("lerp({a:?},{b:?},{x}) = {r:?} not between the endpoints"), mk()));
        }
        // agreement with the real interpolation
        let real = af + (x as f64) * (bf - af);
        let tol = if T::IS_INT { 0.5 + fbound } else { fbound };
        if (rf - real).abs() > tol {
            acc.sink.add(&format!("value:{}", T::NAME), rank, || (format!("lerp({a:?},{b:?},{x}) = {r:?}, real interpolation {real} (tolerance {tol:.3e})"), mk()));
        }
        // monotone in x (direction of b-a) up to 2 ulp
        if let Some((p, preal)) = prev {
            let step = rf - p;
            let mut bad = if bf >= af { step < -2.0 * u } else { step > 2.0 * u };
            if bad && T::IS_INT {
                // Rounding to nearest turns a float step of <= 2 ulp into an integer step of 1
                // when the real value is within the float error of a tie (x.5): admissible
                // ("monotone up to float rounding"); anything larger is not.
                let near_tie = |v: f64| ((v - v.floor()) - 0.5).abs() <= fbound;
                if step.abs() <= 1.0 + 2.0 * u && (near_tie(real) || near_tie(preal)) {
                    bad = false;
                }
            }
            if bad {
                acc.sink.add(&format!("monotone:{}", T::NAME), rank, || (format!("lerp({a:?},{b:?},x) moves backwards by {step} at x={x}"), mk()));
            }
        }
        prev = Some((rf, real));
    }
}

fn all_pairs<T: Num>(vals: &[T], xs: &[f32], base_rank: u64) -> Acc {
    let n = vals.len();
    par_fold(
        n,
        Acc::default,
        |i, acc| {
            for j in 0..n {
                check_pair(vals[i], vals[j], xs, base_rank | ((i * n + j) as u64), acc);
            }
            if acc.samples.is_empty() && i == n / 3 {
                let (a, b) = (vals[i], vals[(i * 7 + 3) % n]);
                let x = xs[xs.len() / 3];
                acc.samples.push(json!({"type": T::NAME, "a": format!("{a:?}"), "b": format!("{b:?}"), "x": x, "lerp": format!("{:?}", std::panic::catch_unwind(std::panic::AssertUnwindSafe(|| a.lerp(&b, x))))}));
            }
        },
        merge,
    )
}

/// f32-representable boundary values of a wide integer type given by [min, max] as i128.
fn boundary_ints(min: i128, max: i128) -> Vec<i128> {
    let mut v: Vec<i128> = vec![0, 1, 2, 3, 5, 7, 100, 255, 256, 1000, 65535, 65536, 1 << 20, (1 << 21) - 1, 1 << 21, (1 << 24) - 1, 1 << 24];
    for j in 24..=63 {
        v.push(1i128 << j);
        v.push(((1i128 << 24) - 1) << (j - 24 + 1)); // largest f32 below 2^(j+1)
    }
    let mut all: Vec<i128> = v.iter().flat_map(|&x| [x, -x]).collect();
    all.push(min);
    all.retain(|&x| x >= min && x <= max && (x as f32) as i128 == x && (x as f32).is_finite());
    all.sort();
    all.dedup();
    all
}

pub fn run(run: Run) -> ! {
    let thorough = run.is_thorough();
    let xs = if thorough { x_grid(4096, 16) } else { x_grid(256, 16) };
    let mut acc = Acc::default();
    // 8-bit: all pairs
    let u8s: Vec<u8> = (0..=255).collect();
    let i8s: Vec<i8> = (-128..=127).collect();
    merge(&mut acc, all_pairs(&u8s, &xs, 1 << 56));
    merge(&mut acc, all_pairs(&i8s, &xs, 2 << 56));
    // 16-bit: boundary values squared (thorough: plus a 257-value stride)
    let mut u16s: Vec<u16> = vec![0, 1, 2, 3, 127, 128, 255, 256, 257, 1000, 32767, 32768, 32769, 65279, 65533, 65534, 65535, 21845, 43690, 12345, 54321, 9, 99, 999];
    let mut i16s: Vec<i16> = vec![0, 1, -1, 2, -2, 127, -128, 128, -129, 255, 256, -256, 1000, -1000, 32767, -32768, 32766, -32767, 16384, -16384, 12345, -12345, 9, -99];
    if thorough {
        u16s.extend((0..=65535u32).step_by(257).map(|x| x as u16));
        i16s.extend((-32768..=32767i32).step_by(257).map(|x| x as i16));
    }
    merge(&mut acc, all_pairs(&u16s, &xs, 3 << 56));
    merge(&mut acc, all_pairs(&i16s, &xs, 4 << 56));
    // wide integers: f32-representable boundary values squared
    let i32s: Vec<i32> = boundary_ints(i32::MIN as i128, i32::MAX as i128).into_iter().map(|x| x as i32).collect();
    let u32s: Vec<u32> = boundary_ints(0, u32::MAX as i128).into_iter().map(|x| x as u32).collect();
    let i64s: Vec<i64> = boundary_ints(i64::MIN as i128, i64::MAX as i128).into_iter().map(|x| x as i64).collect();
    let u64s: Vec<u64> = boundary_ints(0, u64::MAX as i128).into_iter().map(|x| x as u64).collect();
    let usizes: Vec<usize> = u64s.iter().map(|&x| x as usize).collect();
    merge(&mut acc, all_pairs(&i32s, &xs, 5 << 56));
    merge(&mut acc, all_pairs(&u32s, &xs, 6 << 56));
    merge(&mut acc, all_pairs(&i64s, &xs, 7 << 56));
    merge(&mut acc, all_pairs(&u64s, &xs, 8 << 56));
    merge(&mut acc, all_pairs(&usizes, &xs, 9 << 56));
    // floats
    let f32s: Vec<f32> = vec![0.0, -0.0, 1.0, -1.0, 0.1, -0.1, 0.3, 0.5, 2.5, 100.0, -64.0, 1e-10, 2.5e-10, 1.25e5, 6.77e5, 1e20, -1e20, f32::MIN_POSITIVE, f32::from_bits(1), f32::from_bits(0x0000_ffff), f32::MAX / 4.0, -f32::MAX / 4.0, 16777216.0, 16777215.0, f32::MAX, -f32::MAX, 3.0e38, -3.0e38];
    let f64s: Vec<f64> = f32s.iter().map(|&x| x as f64).collect();
    merge(&mut acc, all_pairs(&f32s, &xs, 10 << 56));
    merge(&mut acc, all_pairs(&f64s, &xs, 11 << 56));
    // extreme pairs over ALL f32 x in [0,1] (thorough) / every 4096th (quick)
    let stride: u32 = if thorough { 1 } else { 128 };
    let one = 1.0f32.to_bits();
    let blocks: Vec<(u32, u32)> = {
        let mut v = vec![];
        let b = 1u32 << 22;
        let mut s = 0;
        while s <= one {
            v.push((s, b.min(one - s + 1)));
            s += b;
        }
        v
    };
    macro_rules! sweep {
        ($t:ty, $pairs:expr, $tag:expr) => {{
            let pairs: Vec<($t, $t)> = $pairs;
            let items: Vec<(usize, usize)> = (0..pairs.len()).flat_map(|p| (0..blocks.len()).map(move |b| (p, b))).collect();
            let a = par_fold(
                items.len(),
                Acc::default,
                |ii, acc| {
                    let (pi, bi) = items[ii];
                    let (a, b) = pairs[pi];
                    let (s, cnt) = blocks[bi];
                    let xs: Vec<f32> = (0..cnt).step_by(stride as usize).map(|j| f32::from_bits(s + j)).collect();
                    check_pair(a, b, &xs, ($tag as u64) << 56 | (pi as u64) << 40, acc);
                    acc.pairs -= 1; // counted once below
                },
                merge,
            );
            merge(&mut acc, a);
            acc.pairs += pairs.len() as u64;
        }};
    }
    sweep!(u8, vec![(0, 255), (255, 0), (255, 255), (1, 254)], 12);
    sweep!(i8, vec![(-128, 127), (127, -128), (-128, -128), (127, 127)], 13);
    sweep!(i32, vec![(i32::MIN, 2147483520), (2147483520, i32::MIN), (2147483520, 2147483520), (i32::MIN, i32::MIN)], 14);
    sweep!(u32, vec![(0, 4294967040), (4294967040, 0), (4294967040, 4294967040)], 15);
    sweep!(i64, vec![(i64::MIN, 9223371487098961920), (9223371487098961920, 9223371487098961920)], 16);
    sweep!(u64, vec![(0, 18446742974197923840), (18446742974197923840, 18446742974197923840)], 17);
    sweep!(u16, vec![(0, 65535), (65535, 65535)], 18);
    sweep!(f32, vec![(0.1, 0.1), (-1e20, 1e20), (0.0, 1.0)], 19);
    // glam vectors: component-wise, bit-equal to the scalar lerp of the components
    let glam_checks = glam_family(&mut acc, &xs);
    let mut cov = Map::new();
    cov.insert("states".into(), json!(acc.pairs));
    cov.insert("transitions".into(), json!(acc.evals));
    cov.insert("traces_validated_against_impl".into(), json!(acc.evals));
    cov.insert("evaluations".into(), json!(acc.evals));
    cov.insert("distinct_nontrivial".into(), json!(acc.nontrivial_pairs));
    cov.insert("rule".into(), json!(format!("u8,i8: ALL 65536 (a,b) pairs; u16,i16: boundary values squared; i32,u32,i64,u64,usize: all f32-representable boundary values (0, +-2^j, largest f32 below 2^j, MIN, largest representable below MAX) squared; f32: 28 values squared (signed zeros, subnormals, non-dyadics, 1e20, MAX/4); f64: the same values; x grid: j/{} plus 16 f32 neighbours of 0, 1/2, 1 and 0.1,0.2,0.3,0.7,0.9,1/3; extreme pairs additionally over {} f32 x in [0,1]; glam Vec2/3/3A/4, DVec*, IVec*, UVec*, I64Vec*, U64Vec* component-wise ({} vector evaluations). states = (type,a,b) pairs, transitions = lerp calls; non-trivial = pairs with a != b", if thorough { 4096 } else { 256 }, if thorough { "ALL 1 065 353 217" } else { "every 128th of the" }, glam_checks)));
    cov.insert("exhaustive".into(), json!(true));
    cov.insert("oracles".into(), json!("x=0 => a and x=1 => b exactly; a=b => a and betweenness exactly when 2 ulp32(|a|) < 1/2 (integers below 2^21), within 2 ulp32 otherwise; monotone in x up to 2 ulp32; |r - (a + x(b-a))| <= 1/2 + 3 ulp32(max|a|,|b|) for integers, <= 3 ulp32 for floats; no panic; finite"));
    cov.insert("samples".into(), json!(acc.samples));
    run.finish(acc.sink, cov, vec!["Quat/DQuat are not vector types of the statement and are skipped".into(), "values not exactly representable in f32 are outside the statement".into()])
}

fn glam_family(acc: &mut Acc, xs: &[f32]) -> u64 {
    use glam::*;
    let mut n = 0u64;
    let fs = [0.0f32, 1.0, -64.0, 0.1, 1e10, -2.5];
    let is = [0i32, 1, -100, 2147483520, i32::MIN];
    let us = [0u32, 7, 255, 4294967040];
    let ls = [0i64, -9, 1 << 40, i64::MIN];
    let uls = [0u64, 9, 1 << 50];
    macro_rules! chk {
        ($name:expr, $va:expr, $vb:expr, $comps:expr, $x:expr, $rank:expr) => {{
            let (va, vb) = ($va, $vb);
            let r = std::panic::catch_unwind(std::panic::AssertUnwindSafe(|| Lerp::lerp(&va, &vb, $x)));
            n += 1;
            acc.evals += 1;
            match r {
                Err(_) => acc.sink.add(&format!("glam-panic:{}", $name), $rank, || (format!("{}::lerp({:?},{:?},{}) panicked", $name, va, vb, $x), json!({"type": $name, "a": format!("{va:?}"), "b": format!("{vb:?}"), "x": $x}))),
                Ok(r) => {
                    let got: Vec<String> = r.to_array().iter().map(|c| format!("{:?}", c)).collect();
                    let want: Vec<String> = $comps;
                    if got != want {
                        acc.sink.add(&format!("glam-not-componentwise:{}", $name), $rank, || (format!("{}::lerp({:?},{:?},{}) = {:?}, component-wise scalar lerp = {:?}", $name, va, vb, $x, got, want), json!({"type": $name, "a": format!("{va:?}"), "b": format!("{vb:?}"), "x": $x})));
                    }
                }
            }
        }};
    }
    let xs: Vec<f32> = xs.iter().copied().step_by((xs.len() / 24).max(1)).chain([0.0, 1.0]).collect();
    let mut rank = 20u64 << 56;
    macro_rules! family {
        ($vals:expr, $t2:ident, $t3:ident, $t4:ident) => {{
            let v = $vals;
            let m = v.len();
            for i in 0..m {
                for j in 0..m {
                    for &x in &xs {
                        rank += 1;
                        let (a0, a1, a2, a3) = (v[i], v[(i + 1) % m], v[(i + 2) % m], v[(i + 3) % m]);
                        let (b0, b1, b2, b3) = (v[j], v[(j + 2) % m], v[(j + 1) % m], v[(j + 3) % m]);
                        let s = |a, b| -> String { format!("{:?}", Lerp::lerp(&a, &b, x)) };
                        // scalar lerps may panic for out-of-range results; then the vector must too (skip)
                        let ok = std::panic::catch_unwind(std::panic::AssertUnwindSafe(|| (Lerp::lerp(&a0, &b0, x), Lerp::lerp(&a1, &b1, x), Lerp::lerp(&a2, &b2, x), Lerp::lerp(&a3, &b3, x)))).is_ok();
                        if !ok {
                            continue;
                        }
                        chk!(stringify!($t2), $t2::new(a0, a1), $t2::new(b0, b1), vec![s(a0, b0), s(a1, b1)], x, rank);
                        chk!(stringify!($t3), $t3::new(a0, a1, a2), $t3::new(b0, b1, b2), vec![s(a0, b0), s(a1, b1), s(a2, b2)], x, rank);
                        chk!(stringify!($t4), $t4::new(a0, a1, a2, a3), $t4::new(b0, b1, b2, b3), vec![s(a0, b0), s(a1, b1), s(a2, b2), s(a3, b3)], x, rank);
                    }
                }
            }
        }};
    }
    family!(fs, Vec2, Vec3, Vec4);
    family!(fs.map(|x| x as f64), DVec2, DVec3, DVec4);
    family!(is, IVec2, IVec3, IVec4);
    family!(us, UVec2, UVec3, UVec4);
    family!(ls, I64Vec2, I64Vec3, I64Vec4);
    family!(uls, U64Vec2, U64Vec3, U64Vec4);
    // Vec3A
    for i in 0..fs.len() {
        for j in 0..fs.len() {
            for &x in &xs {
                rank += 1;
                let (a0, a1, a2) = (fs[i], fs[(i + 1) % 6], fs[(i + 2) % 6]);
                let (b0, b1, b2) = (fs[j], fs[(j + 2) % 6], fs[(j + 1) % 6]);
                let s = |a: f32, b: f32| -> String { format!("{:?}", Lerp::lerp(&a, &b, x)) };
                chk!("Vec3A", Vec3A::new(a0, a1, a2), Vec3A::new(b0, b1, b2), vec![s(a0, b0), s(a1, b1), s(a2, b2)], x, rank);
            }
        }
    }
    n
}

pub fn replay(case: &Value) -> bool {
    let ty = case["type"].as_str().unwrap_or("");
    let x = if let Some(b) = case["x_bits"].as_str() { f32::from_bits(u32::from_str_radix(b, 16).unwrap()) } else { jf(&case["x"]) };
    macro_rules! go {
        ($t:ty) => {{
            let a: $t = case["a"].as_str().unwrap().parse().unwrap();
            let b: $t = case["b"].as_str().unwrap().parse().unwrap();
            let mut acc = Acc::default();
            check_pair(a, b, &[x], 0, &mut acc);
            println!("{}::lerp({a:?},{b:?},{x}) = {:?}", ty, std::panic::catch_unwind(std::panic::AssertUnwindSafe(|| a.lerp(&b, x))));
            for (s, v) in &acc.sink.map {
                println!("{s}: {}", v.desc);
            }
            acc.sink.map.is_empty()
        }};
    }
    match ty {
        "u8" => go!(u8),
        "i8" => go!(i8),
        "u16" => go!(u16),
        "i16" => go!(i16),
        "u32" => go!(u32),
        "i32" => go!(i32),
        "u64" => go!(u64),
        "i64" => go!(i64),
        "usize" => go!(usize),
        "f32" => go!(f32),
        "f64" => go!(f64),
        _ => {
            println!("case: {case}");
            false
        }
    }
}
