//! C03 — delay / repeat / reverse map time to a bounded, periodic, mirrored position.

use mina::prelude::*;
use mina_core::time_scale::TimeScalePosition;
use serde_json::{json, Map, Value};
use vlib::model::*;
use vlib::spec::*;
use vlib::util::*;

#[derive(Default, Clone)]
struct Acc {
    sink: VSink,
    evals: u64,
    exact: u64,
    semi_exact: u64,
    windowed: u64,
    bounded_only: u64,
    probe_evals: u64,
    vs_reported: u64,
    phases: [u64; 3],
    samples: Vec<Value>,
}

fn merge(a: &mut Acc, b: Acc) {
    a.sink.merge(b.sink);
    a.evals += b.evals;
    a.exact += b.exact;
    a.semi_exact += b.semi_exact;
    a.windowed += b.windowed;
    a.bounded_only += b.bounded_only;
    a.probe_evals += b.probe_evals;
    a.vs_reported += b.vs_reported;
    for i in 0..3 {
        a.phases[i] += b.phases[i];
    }
    if a.samples.len() < 4 {
        a.samples.extend(b.samples);
    }
}

fn is_pow2(x: f32) -> bool {
    x > 0.0 && (x.to_bits() & 0x007f_ffff) == 0 && x.is_normal()
}

fn cfg_json(c: &Timing, t: f32) -> Value {
    json!({"timing": c.to_json(), "time": fj(t), "time_bits": format!("{:08x}", t.to_bits()),
           "rust": format!("TimeScale::new({:?}, {:?}, {:?}, {}).get_position(f32::from_bits(0x{:08x}))", c.cycle, c.delay, c.rep.real(), c.reverse, t.to_bits())})
}

/// Does the implementation's answer agree with the model phase `m` (position tolerance `ptol`)?
fn agrees(got: &TimeScalePosition, m: &Phase, ptol: f64) -> bool {
    match (got, m) {
        (TimeScalePosition::NotStarted, Phase::NotStarted) => true,
        (TimeScalePosition::Ended(p), Phase::Ended { pos }) => (*p as f64 - pos).abs() <= 0.0,
        (TimeScalePosition::Active(p, ls), Phase::Active { pos, cycle, reversing }) => {
            (*p as f64 - pos).abs() <= ptol && ls.is_repeating == (*cycle >= 1) && ls.is_reversing == *reversing
        }
        _ => false,
    }
}

fn check_time(c: &Timing, ts: &mina::TimeScale, t: f32, rank: u64, acc: &mut Acc) {
    let got = match std::panic::catch_unwind(std::panic::AssertUnwindSafe(|| ts.get_position(t))) {
        Ok(g) => g,
        Err(_) => {
            acc.sink.add("panic", rank, || (format!("get_position({t}) panicked"), cfg_json(c, t)));
            return;
        }
    };
    acc.evals += 1;
    // boundedness: always
    let (p, pi) = match &got {
        TimeScalePosition::NotStarted => (0.0f32, 0),
        TimeScalePosition::Active(p, _) => (*p, 1),
        TimeScalePosition::Ended(p) => (*p, 2),
    };
    acc.phases[pi] += 1;
    if !(p >= 0.0 && p <= 1.0) {
        acc.sink.add("position-out-of-range", rank, || (format!("t={t}: position {p} not in [0,1] ({got:?})"), cfg_json(c, t)));
        return;
    }
    // NotStarted <=> t < delay (exact)
    if (pi == 0) != (t < c.delay) {
        acc.sink.add("not-started-iff-before-delay", rank, || (format!("t={t} delay={}: {got:?}", c.delay), cfg_json(c, t)));
        return;
    }
    if pi == 0 {
        acc.exact += 1;
        return;
    }
    // "becomes terminal exactly when ..., and the reported total duration agrees with that behaviour":
    // terminal strictly below the reported duration, or not terminal strictly above it, is a disagreement
    // between get_position and get_duration. With delay 0 both are the same f32 number (no slack; t equal
    // to the reported duration itself is left to the other clauses); with a delay the two roundings of
    // t - delay and delay + cycle*(n+1) are allowed for.
    if c.total().is_some() {
        let d = ts.get_duration();
        if d.is_finite() {
            let slack = if c.delay == 0.0 { 0.0 } else { 2.0 * (ulp32(d) as f64).max(ulp32((t - c.delay).abs().max(f32::MIN_POSITIVE)) as f64).max(ulp32(t) as f64) };
            acc.vs_reported += 1;
            if pi == 2 && (t as f64) < d as f64 - slack {
                acc.sink.add("ended-before-reported-duration", rank, || (format!("t={t}: {got:?} although get_duration() = {d}"), cfg_json(c, t)));
                return;
            }
            if pi != 2 && (t as f64) > d as f64 + slack {
                acc.sink.add("not-ended-after-reported-duration", rank, || (format!("t={t}: {got:?} although get_duration() = {d}"), cfg_json(c, t)));
                return;
            }
        }
    }
    let td32 = t - c.delay;
    let td64 = t as f64 - c.delay as f64;
    let exact = is_pow2(c.cycle) && (td32 as f64) == td64 && matches!(c.rep, Rep::None | Rep::Infinite | Rep::Times(0..=1023));
    if exact {
        acc.exact += 1;
        let m = ref_phase(c, t);
        if !agrees(&got, &m, 0.0) {
            acc.sink.add(&format!("exact:{}", kind(&got, &m)), rank, || (format!("t={t}: implementation {got:?}, reference {m:?} (exact arithmetic)"), cfg_json(c, t)));
        }
        return;
    }
    // t - delay exact but the cycle is not a power of two: the remainder is still exact (fmod),
    // only the division and 1-x round (<= 2 ulp of 1 on the position); flags and phase must be
    // exact except within 2 ulp of the (rounded) end threshold
    if (td32 as f64) == td64 && matches!(c.rep, Rep::None | Rep::Infinite | Rep::Times(0..=1023)) {
        let near_end = c.total().map(|tot| ((t as f64) - tot).abs() <= 2.0 * ulp32(tot as f32) as f64).unwrap_or(false);
        if !near_end {
            acc.semi_exact += 1;
            let m = ref_phase(c, t);
            if !agrees(&got, &m, 3.0 * 1.1920929e-7) {
                acc.sink.add(&format!("exact-subtraction:{}", kind(&got, &m)), rank, || (format!("t={t}: implementation {got:?}, reference {m:?} (t - delay is exact, so only the division may round: position tolerance 3.6e-7)"), cfg_json(c, t)));
            }
            return;
        }
    }
    // jitter window: the implementation rounds (t - delay) and the end threshold to f32
    // (with a negative delay t - delay is larger than t, so its rounding, not ulp(t), sets the window)
    let w = (ulp32(t) as f64).max(ulp32(td32.abs().max(f32::MIN_POSITIVE)) as f64);
    if 3.0 * w >= c.cycle as f64 / 4.0 {
        acc.bounded_only += 1;
        // terminal consistency still holds far beyond the end
        if let Some(total) = c.total() {
            if (t as f64) > total + 8.0 * w && pi != 2 {
                acc.sink.add("not-ended-far-beyond-total", rank, || (format!("t={t} total={total}: {got:?}"), cfg_json(c, t)));
            }
            if (t as f64) < total - 8.0 * w && pi == 2 {
                acc.sink.add("ended-before-total", rank, || (format!("t={t} total={total}: {got:?}"), cfg_json(c, t)));
            }
        } else if pi == 2 {
            acc.sink.add("infinite-ended", rank, || (format!("t={t}: {got:?}"), cfg_json(c, t)));
        }
        return;
    }
    acc.windowed += 1;
    let ptol = 4.0 * 1.1920929e-7 + 4.0 * (ulp32(td32.abs().max(f32::MIN_POSITIVE)) as f64) / c.cycle as f64;
    let mut ok = false;
    for k in [0i32, -1, 1, -2, 2, -3, 3] {
        let m = ref_phase64(c, t as f64 + k as f64 * w);
        if agrees(&got, &m, ptol) {
            ok = true;
            break;
        }
        // a reversal peak / wrap inside the window: positions on both sides are admissible
        if let (TimeScalePosition::Active(p, _), Phase::Active { pos, .. }) = (&got, &m) {
            let _ = (p, pos);
        }
    }
    if !ok {
        let m = ref_phase(c, t);
        acc.sink.add(&format!("windowed:{}", kind(&got, &m)), rank, || (format!("t={t}: implementation {got:?}, reference {m:?} (no agreement within +-3 ulp of t, position tolerance {ptol:.2e})"), cfg_json(c, t)));
    }
}

fn kind(got: &TimeScalePosition, m: &Phase) -> &'static str {
    match (got, m) {
        (TimeScalePosition::Active(_, ls), Phase::Active { cycle, reversing, .. }) => {
            if ls.is_repeating != (*cycle >= 1) {
                "repeating-flag"
            } else if ls.is_reversing != *reversing {
                "reversing-flag"
            } else {
                "position"
            }
        }
        (TimeScalePosition::Ended(_), Phase::Ended { .. }) => "terminal-position",
        (TimeScalePosition::Ended(_), _) => "ended-too-early",
        (_, Phase::Ended { .. }) => "not-ended",
        _ => "phase",
    }
}

fn check_metadata(c: &Timing, rank: u64, acc: &mut Acc) {
    let ts = c.real();
    let probe = probe_timeline(c);
    let mk = || json!({"timing": c.to_json()});
    let dur = std::panic::catch_unwind(std::panic::AssertUnwindSafe(|| (ts.get_duration(), probe.duration())));
    match dur {
        Err(_) => acc.sink.add("metadata:duration-panics", rank, || ("duration() panicked".into(), mk())),
        Ok((d1, d2)) => {
            if d1.to_bits() != d2.to_bits() {
                acc.sink.add("metadata:timeline-vs-timescale", rank, || (format!("Timeline::duration {d2} != TimeScale::get_duration {d1}"), mk()));
            }
            match c.total() {
                None => {
                    if d1 != f32::INFINITY {
                        acc.sink.add("metadata:duration-not-infinite", rank, || (format!("duration {d1} for an infinitely repeating timeline"), mk()));
                    }
                }
                Some(total) => {
                    // n + 1 itself is rounded when it needs more than 24 bits (one more rounding step)
                    let n1 = match c.rep { Rep::Times(n) => n as u64 + 1, _ => 1 };
                    let tolu = if (n1 as f32) as u64 == n1 { 1.5 } else { 2.5 };
                    if !((d1 as f64 - total).abs() <= tolu * ulp32(total as f32) as f64) {
                        acc.sink.add("metadata:duration", rank, || (format!("duration {d1}, configured delay + cycle*(repeats+1) = {total}"), mk()));
                    }
                }
            }
        }
    }
    // the reported metadata is a property of the timing configuration, not of the keyframes: a timeline
    // without any keyframe reports the same numbers
    let bare = TlSpec { kfs: vec![], default_easing: 0, timing: *c }.build();
    if let Ok(bd) = std::panic::catch_unwind(std::panic::AssertUnwindSafe(|| bare.duration())) {
        if bd.to_bits() != ts.get_duration().to_bits() || bare.delay().to_bits() != c.delay.to_bits() || bare.cycle_duration() != Some(c.cycle) || bare.repeat() != c.rep.real() {
            acc.sink.add("metadata:keyframe-less-timeline-differs", rank, || (format!("a timeline without keyframes reports duration {} delay {} cycle {:?} repeat {:?}; the time scale reports duration {}", bd, bare.delay(), bare.cycle_duration(), bare.repeat(), ts.get_duration()), mk()));
        }
    }
    // ... and so does the same timeline wrapped in a MergedTimeline (what StateAnimatorBuilder::on, the macros and
    // the Bevy Animator hold), also when the total is negative
    {
        let wrapped: MergedTimeline<PTimeline> = MergedTimeline::from(probe.clone());
        if let Ok(wd) = std::panic::catch_unwind(std::panic::AssertUnwindSafe(|| wrapped.duration())) {
            if wd.to_bits() != ts.get_duration().to_bits() || wrapped.delay().to_bits() != c.delay.to_bits() || wrapped.cycle_duration() != Some(c.cycle) || wrapped.repeat() != c.rep.real() {
                acc.sink.add("metadata:wrapped-in-merged-timeline-differs", rank, || (format!("MergedTimeline::from(timeline) reports duration {} delay {} cycle {:?} repeat {:?}; the time scale reports duration {}", wd, wrapped.delay(), wrapped.cycle_duration(), wrapped.repeat(), ts.get_duration()), mk()));
            }
        }
    }
    // ... and a MergedTimeline of this timeline and one whose cycle is the neighbouring f32 has no cycle duration to
    // report: whatever it reported would not be the configured cycle (nor a period) of one of the two
    if c.cycle > 0.0 && c.cycle.is_finite() {
        for other in [next_up(c.cycle), f32::from_bits(c.cycle.to_bits() - 1)] {
            if !(other > 0.0) {
                continue;
            }
            let mut t2 = *c;
            t2.cycle = other;
            let twin = TlSpec { kfs: vec![], default_easing: 0, timing: t2 }.build();
            for pair in [MergedTimeline::of([probe.clone(), twin.clone()]), MergedTimeline::of([twin.clone(), probe.clone()])] {
                if let Some(r) = pair.cycle_duration() {
                    acc.sink.add("metadata:merged-neighbouring-cycles-report-a-common-cycle", rank, || (format!("MergedTimeline of two timelines with cycles {:e} and {:e} (1 ulp apart) reports cycle_duration Some({:e}), which is not the configured cycle of both", c.cycle, other, r), mk()));
                }
            }
        }
    }
    // ... and a MergedTimeline of this timeline and a much shorter one that repeats 3 times reports the greater of
    // the two repeat settings, whichever member is the longer-running one
    if c.cycle > 0.0 && c.cycle.is_finite() {
        let mut t2 = *c;
        t2.cycle = c.cycle / 8.0;
        t2.rep = Rep::Times(3);
        t2.delay = c.delay + 4.0;
        let want = match c.rep {
            Rep::Infinite => Repeat::Infinite,
            Rep::Times(n) => Repeat::Times(n.max(3)),
            Rep::None => Repeat::Times(3),
        };
        if t2.cycle > 0.0 {
            let twin = TlSpec { kfs: vec![], default_easing: 0, timing: t2 }.build();
            for pair in [MergedTimeline::of([probe.clone(), twin.clone()]), MergedTimeline::of([twin.clone(), probe.clone()])] {
                // ... and the greater of the two totals (the twin starts 4 s later than this timeline)
                let wd = if probe.duration() >= twin.duration() { probe.duration() } else { twin.duration() };
                if pair.duration().to_bits() != wd.to_bits() && !(pair.duration().is_nan() && wd.is_nan()) {
                    acc.sink.add("metadata:merged-duration-not-the-greatest", rank, || (format!("MergedTimeline of this timeline (total {}) and a twin that starts 4 s later (total {}) reports duration {}", probe.duration(), twin.duration(), pair.duration()), mk()));
                }
                if pair.repeat() != want {
                    acc.sink.add("metadata:merged-repeat-not-the-greatest", rank, || (format!("MergedTimeline of this timeline ({:?}) and a shorter one repeating Times(3) reports repeat {:?}, the greatest of the two is {:?}", c.rep, pair.repeat(), want), mk()));
                }
            }
        }
    }
    if ts.get_delay().to_bits() != c.delay.to_bits() || probe.delay().to_bits() != c.delay.to_bits() {
        acc.sink.add("metadata:delay", rank, || (format!("delay {} / {}", ts.get_delay(), probe.delay()), mk()));
    }
    if ts.get_cycle_duration().to_bits() != c.cycle.to_bits() || probe.cycle_duration() != Some(c.cycle) {
        acc.sink.add("metadata:cycle", rank, || (format!("cycle {} / {:?}", ts.get_cycle_duration(), probe.cycle_duration()), mk()));
    }
    if ts.get_repeat() != c.rep.real() || probe.repeat() != c.rep.real() {
        acc.sink.add("metadata:repeat", rank, || (format!("repeat {:?} / {:?}", ts.get_repeat(), probe.repeat()), mk()));
    }
}

fn probe_timeline(c: &Timing) -> PTimeline {
    // the settings are made in one of four orders relative to each other and to the keyframes (the order must
    // not matter), chosen by the configuration's bits
    let mode = (c.cycle.to_bits() ^ c.delay.to_bits() ^ (c.reverse as u32) ^ match c.rep { Rep::None => 0, Rep::Times(n) => n.wrapping_mul(3) + 1, Rep::Infinite => 2 }) % 4;
    TlSpec {
        kfs: vec![Kf { pos: 0.0, a: Some(0.0), k: None, d: None, easing: None }, Kf { pos: 1.0, a: Some(1.0), k: None, d: None, easing: None }],
        default_easing: 0,
        timing: *c,
    }
    .builder_ordered(mode as u8)
    .build()
}

/// Linear 0->1 probe through the public Timeline API must show exactly the position.
fn check_probe(c: &Timing, ts: &mina::TimeScale, probe: &PTimeline, t: f32, rank: u64, acc: &mut Acc) {
    let r = std::panic::catch_unwind(std::panic::AssertUnwindSafe(|| {
        let mut p = P::default();
        probe.update(&mut p, t);
        (p.a, ts.get_position(t))
    }));
    let Ok((a, pos)) = r else {
        acc.sink.add("panic", rank, || (format!("update({t}) panicked"), cfg_json(c, t)));
        return;
    };
    acc.probe_evals += 1;
    let p = match pos {
        TimeScalePosition::NotStarted => 0.0,
        TimeScalePosition::Active(p, _) => p,
        TimeScalePosition::Ended(p) => p,
    };
    // lerp(0,1,p) = 0*(1-p) + 1*p = p exactly
    if a.to_bits() != p.to_bits() && !(a == 0.0 && p == 0.0) {
        acc.sink.add("probe:timeline-position-differs", rank, || (format!("t={t}: linear probe shows {a}, time scale position {p}"), cfg_json(c, t)));
    }
}

fn configs() -> Vec<Timing> {
    let mut v = vec![];
    // (41, 47, 55, 13: cycles c for which c * (1/c) is not 1 in f32; 0.7, 7: more non-dyadics)
    // 3, 7 and 11 units of the smallest subnormal: half a cycle is not representable there
    for &cycle in &[0.25f32, 1.0, 3.0, 0.3, 1.0e-3, 1.0e3, 1.0e-8, 41.0, 47.0, 55.0, 13.0, 0.7, 7.0, f32::from_bits(3), f32::from_bits(7), f32::from_bits(11)] {
        // "any delay": negative delays (animation already under way at time 0) included
        for &delay in &[0.0f32, 0.5, 0.1, 7.0, -0.5, -0.3] {
            for rep in [Rep::None, Rep::Times(0), Rep::Times(1), Rep::Times(2), Rep::Times(7), Rep::Infinite] {
                for reverse in [false, true] {
                    v.push(Timing::new(cycle, delay, rep, reverse));
                }
            }
        }
    }
    // very large repeat counts: n + 1 is not representable in f32 from 2^24 on, so how the end threshold
    // and the reported duration are rounded starts to matter
    for &cycle in &[1.0f32, 0.9, 3.0] {
        for &delay in &[0.0f32, 0.5] {
            for n in [16_777_215u32, 16_777_216, 16_777_217, 33_554_431, 1 << 31, 4_294_966_911, u32::MAX - 1, u32::MAX] {
                for reverse in [false, true] {
                    v.push(Timing::new(cycle, delay, Rep::Times(n), reverse));
                }
            }
        }
    }
    v
}

fn boundary_times(c: &Timing, radius: i32) -> Vec<f32> {
    let reps = match c.rep {
        Rep::None => 0,
        Rep::Times(n) => n.min(8),
        Rep::Infinite => 3,
    };
    let mut v = vec![];
    for j in 0..=(2 * (reps + 1) + 2) {
        let b = (c.delay as f64 + j as f64 * c.cycle as f64 / 2.0) as f32;
        for k in -radius..=radius {
            v.push(step_ulps(b, k));
        }
    }
    for k in -radius..=radius {
        v.push(step_ulps(c.delay, k));
    }
    // around the end: the reported duration and the configured total
    if let Some(total) = c.total() {
        let d = c.real().get_duration();
        for k in -radius..=radius {
            v.push(step_ulps(d, k));
            v.push(step_ulps(total as f32, k));
        }
    }
    for i in 0..=(20 * 16) {
        v.push(i as f32 / 16.0);
    }
    // moderate and large times (phase must not drift): 2^k * (1 + j/7) up to ~1.5e7, on top of the delay
    for k in 0..=23 {
        for j in 0..7 {
            let x = (1u32 << k) as f32 * (1.0 + j as f32 / 7.0);
            v.push(x);
            v.push(c.delay + x);
        }
    }
    v.extend([1.0e6, 1.0e30, f32::MAX, f32::MIN_POSITIVE, -1.0, -f32::MAX]);
    v
}

pub fn run(run: Run) -> ! {
    let cfgs = configs();
    let radius: i32 = if run.is_thorough() { 4096 } else { 1024 };
    let mut acc = par_fold(
        cfgs.len(),
        Acc::default,
        |i, acc| {
            let c = &cfgs[i];
            let rank = (i as u64) << 32;
            check_metadata(c, rank, acc);
            let ts = c.real();
            let probe = probe_timeline(c);
            for t in boundary_times(c, radius) {
                check_time(c, &ts, t, rank | t.to_bits() as u64, acc);
                check_probe(c, &ts, &probe, t, rank | t.to_bits() as u64, acc);
            }
            if acc.samples.len() < 2 && i % 41 == 7 {
                let t = boundary_times(c, 1)[7];
                acc.samples.push(json!({"timing": c.to_json(), "time": fj(t), "implementation": format!("{:?}", ts.get_position(t)), "reference": format!("{:?}", ref_phase(c, t))}));
            }
        },
        merge,
    );
    let mut swept_cfgs = 0u64;
    let mut swept_values = 0u64;
    if run.is_thorough() {
        // every finite f32 bit pattern of time for 64 configurations
        let mut sel: Vec<Timing> = vec![];
        for (i, c) in cfgs.iter().enumerate() {
            if i % 9 == 0 || (i % 9 == 4 && i % 2 == 0) {
                sel.push(*c);
            }
        }
        sel.truncate(60);
        sel.extend([
            Timing::new(1.0, 0.0, Rep::Times(2), true),
            Timing::new(2.0, 0.5, Rep::Infinite, true),
            Timing::new(0.7, 0.3, Rep::Times(3), false),
            Timing::new(5.0, 2.5, Rep::None, true),
        ]);
        swept_cfgs = sel.len() as u64;
        // work items: (config, exponent block of 2^23 bit patterns), both signs
        let blocks: u32 = 0xff; // exponents 0..=254 (finite)
        let items: Vec<(usize, u32, bool)> = (0..sel.len()).flat_map(|ci| (0..blocks).flat_map(move |e| [(ci, e, false), (ci, e, true)])).collect();
        let probe_cfgs = 8usize;
        let a2 = par_fold(
            items.len(),
            Acc::default,
            |ii, acc| {
                let (ci, e, neg) = items[ii];
                let c = &sel[ci];
                let ts = c.real();
                let probe = if ci < probe_cfgs { Some(probe_timeline(c)) } else { None };
                let base = (e << 23) | if neg { 0x8000_0000 } else { 0 };
                let rank = (1u64 << 60) | (ci as u64) << 32;
                for m in 0..(1u32 << 23) {
                    let t = f32::from_bits(base | m);
                    check_time(c, &ts, t, rank | (base | m) as u64, acc);
                    if let Some(p) = &probe {
                        if m % 16 == 0 {
                            check_probe(c, &ts, p, t, rank | (base | m) as u64, acc);
                        }
                    }
                }
            },
            merge,
        );
        swept_values = a2.evals;
        merge(&mut acc, a2);
    }
    let mut cov = Map::new();
    cov.insert("states".into(), json!(cfgs.len() as u64 + swept_cfgs));
    cov.insert("transitions".into(), json!(acc.evals + acc.probe_evals));
    cov.insert("traces_validated_against_impl".into(), json!(acc.exact + acc.semi_exact + acc.windowed));
    cov.insert("evaluations".into(), json!(acc.evals + acc.probe_evals));
    cov.insert("distinct_nontrivial".into(), json!(acc.exact + acc.semi_exact + acc.windowed));
    cov.insert("rule".into(), json!("1152 timing configurations (cycle in {1/4,1,3,0.3,1e-3,1e3,1e-8,41,47,55,13,0.7,7, and 3, 7, 11 units of the smallest subnormal (half a cycle is not an f32 there)} x delay in {0,1/2,0.1,7,-1/2,-0.3} x repeat in {None,Times 0,1,2,7,Infinite} x reverse) + 96 with very large repeat counts (cycle 1,0.9,3 x delay 0,1/2 x Times 2^24-1,2^24,2^24+1,2^25-1,2^31,2^32-385,u32::MAX-1,u32::MAX x reverse) x {every f32 within +-1024 (thorough 4096) ulp of every phase boundary delay+j*cycle/2 (first cycles), of the delay, of the reported duration and of the configured total, a 1/16 grid up to 20, 2^k(1+j/7) up to 1.5e7 (also offset by the delay), 1e6, 1e30, f32::MAX, MIN_POSITIVE, negative times}; thorough additionally sweeps EVERY finite f32 bit pattern (both signs) for 64 configurations. Oracle RefTimeScale: position in [0,1]; NotStarted iff t<delay (exact); when the arithmetic is exact (power-of-two cycle, exact t-delay) the phase, position and loop flags must equal the reference bit for bit; when only t-delay is exact the phase and flags must be equal and the position within 3 ulp(1) (the remainder is exact, only the division rounds); otherwise agreement with the reference at some t' within +-3 ulp(t) (position tolerance stated per case); when 3 ulp(t) >= cycle/4 only boundedness and far-from-end terminal consistency are asserted (counted as bounded_only). Every evaluation of a finite configuration is also checked against the REPORTED duration: terminal strictly before get_duration() or not terminal strictly after it is a violation (no slack when delay = 0, 2 ulp otherwise). Metadata: delay/cycle/repeat exact, duration within 1.5 ulp (2.5 when repeats+1 needs more than 24 bits) of delay+cycle*(repeats+1), infinite iff Infinite; a timeline without keyframes, and the timeline wrapped in MergedTimeline::from, report the same metadata, while a MergedTimeline of the timeline and a twin whose cycle is the neighbouring f32 (either side, either order) reports no cycle duration, and merged with a shorter Times(3) twin it reports the greater of the two repeats and (the twin starting 4 s later) the greater of the two totals; a linear 0->1 probe through Timeline::update must show exactly the position (the probe's duration/delay/repeat/reverse setters are called in one of four orders). non-trivial = evaluations compared with the reference (exact + windowed)"));
    cov.insert("exhaustive".into(), json!(true));
    cov.insert("compared_exact".into(), json!(acc.exact));
    cov.insert("compared_exact_phase_position_within_3ulp".into(), json!(acc.semi_exact));
    cov.insert("compared_with_jitter_window".into(), json!(acc.windowed));
    cov.insert("bounded_only".into(), json!(acc.bounded_only));
    cov.insert("compared_with_reported_duration".into(), json!(acc.vs_reported));
    cov.insert("phases_observed_notstarted_active_ended".into(), json!(acc.phases));
    cov.insert("full_f32_sweep_configs".into(), json!(swept_cfgs));
    cov.insert("full_f32_sweep_evaluations".into(), json!(swept_values));
    cov.insert("samples".into(), json!(acc.samples));
    run.finish(acc.sink, cov, vec!["f64 reference is exact on exact cases; elsewhere its 2^-53 relative error is far inside the jitter window".into()])
}

pub fn replay(case: &Value) -> bool {
    let c = Timing::from_json(&case["timing"]);
    let mut acc = Acc::default();
    check_metadata(&c, 0, &mut acc);
    if let Some(tb) = case["time_bits"].as_str() {
        let t = f32::from_bits(u32::from_str_radix(tb, 16).unwrap());
        let ts = c.real();
        println!("implementation {:?}\nreference {:?}", std::panic::catch_unwind(std::panic::AssertUnwindSafe(|| ts.get_position(t))), ref_phase(&c, t));
        check_time(&c, &ts, t, 0, &mut acc);
        check_probe(&c, &ts, &probe_timeline(&c), t, 0, &mut acc);
    }
    for (s, v) in &acc.sink.map {
        println!("{s}: {}", v.desc);
    }
    acc.sink.map.is_empty()
}
