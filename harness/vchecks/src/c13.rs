//! C13 — easing curves: endpoints, range, monotonicity, mirrors, Custom, definition.

use mina::prelude::*;
use mina::EasingFunction;
use serde_json::{json, Map, Value};
use vlib::spec::*;
use vlib::util::*;

/// Independent table of the published control points (CSS Easing Functions Level 1 for
/// Ease/In/Out/InOut; easings.net for the rest).
pub fn table() -> Vec<(&'static str, Easing, Option<[f64; 4]>)> {
    vec![
        ("Linear", Easing::Linear, None),
        ("Ease", Easing::Ease, Some([0.25, 0.1, 0.25, 1.0])),
        ("In", Easing::In, Some([0.42, 0.0, 1.0, 1.0])),
        ("Out", Easing::Out, Some([0.0, 0.0, 0.58, 1.0])),
        ("InOut", Easing::InOut, Some([0.42, 0.0, 0.58, 1.0])),
        ("InSine", Easing::InSine, Some([0.12, 0.0, 0.39, 0.0])),
        ("OutSine", Easing::OutSine, Some([0.61, 1.0, 0.88, 1.0])),
        ("InOutSine", Easing::InOutSine, Some([0.37, 0.0, 0.63, 1.0])),
        ("InQuad", Easing::InQuad, Some([0.11, 0.0, 0.5, 0.0])),
        ("OutQuad", Easing::OutQuad, Some([0.5, 1.0, 0.89, 1.0])),
        ("InOutQuad", Easing::InOutQuad, Some([0.45, 0.0, 0.55, 1.0])),
        ("InCubic", Easing::InCubic, Some([0.32, 0.0, 0.67, 0.0])),
        ("OutCubic", Easing::OutCubic, Some([0.33, 1.0, 0.68, 1.0])),
        ("InOutCubic", Easing::InOutCubic, Some([0.65, 0.0, 0.35, 1.0])),
        ("InQuart", Easing::InQuart, Some([0.5, 0.0, 0.75, 0.0])),
        ("OutQuart", Easing::OutQuart, Some([0.25, 1.0, 0.5, 1.0])),
        ("InOutQuart", Easing::InOutQuart, Some([0.76, 0.0, 0.24, 1.0])),
        ("InQuint", Easing::InQuint, Some([0.64, 0.0, 0.78, 0.0])),
        ("OutQuint", Easing::OutQuint, Some([0.22, 1.0, 0.36, 1.0])),
        ("InOutQuint", Easing::InOutQuint, Some([0.83, 0.0, 0.17, 1.0])),
        ("InExpo", Easing::InExpo, Some([0.7, 0.0, 0.84, 0.0])),
        ("OutExpo", Easing::OutExpo, Some([0.16, 1.0, 0.3, 1.0])),
        ("InOutExpo", Easing::InOutExpo, Some([0.87, 0.0, 0.13, 1.0])),
        ("InCirc", Easing::InCirc, Some([0.55, 0.0, 1.0, 0.45])),
        ("OutCirc", Easing::OutCirc, Some([0.0, 0.55, 0.45, 1.0])),
        ("InOutCirc", Easing::InOutCirc, Some([0.85, 0.0, 0.15, 1.0])),
        ("InBack", Easing::InBack, Some([0.36, 0.0, 0.66, -0.56])),
        ("OutBack", Easing::OutBack, Some([0.34, 1.56, 0.64, 1.0])),
        ("InOutBack", Easing::InOutBack, Some([0.68, -0.6, 0.32, 1.6])),
    ]
}

/// (In, Out) pairs and self-mirrored InOut curves, by table index.
fn mirror_pairs() -> (Vec<(usize, usize)>, Vec<usize>) {
    let t = table();
    let idx = |n: &str| t.iter().position(|e| e.0 == n).unwrap();
    let mut pairs = vec![(idx("In"), idx("Out"))];
    let mut selfs = vec![idx("InOut")];
    for fam in ["Sine", "Quad", "Cubic", "Quart", "Quint", "Expo", "Circ", "Back"] {
        pairs.push((idx(&format!("In{fam}")), idx(&format!("Out{fam}"))));
        selfs.push(idx(&format!("InOut{fam}")));
    }
    (pairs, selfs)
}

fn bez(p1: f64, p2: f64, t: f64) -> f64 {
    let u = 1.0 - t;
    3.0 * u * u * t * p1 + 3.0 * u * t * t * p2 + t * t * t
}
fn bez_d(p1: f64, p2: f64, t: f64) -> f64 {
    let u = 1.0 - t;
    3.0 * u * u * p1 + 6.0 * u * t * (p2 - p1) + 3.0 * t * t * (1.0 - p2)
}

/// The cubic Bezier timing function at horizontal position x (the CSS definition).
pub fn definition(cp: &[f64; 4], x: f64) -> f64 {
    if x <= 0.0 {
        return 0.0;
    }
    if x >= 1.0 {
        return 1.0;
    }
    let (x1, y1, x2, y2) = (cp[0], cp[1], cp[2], cp[3]);
    // Newton with bisection safeguard on the monotone B_x
    let (mut lo, mut hi) = (0.0f64, 1.0f64);
    let mut t = x;
    for _ in 0..64 {
        let f = bez(x1, x2, t) - x;
        if f.abs() < 1e-15 {
            break;
        }
        if f > 0.0 {
            hi = t;
        } else {
            lo = t;
        }
        let d = bez_d(x1, x2, t);
        let mut nt = if d.abs() > 1e-12 { t - f / d } else { 0.5 * (lo + hi) };
        if !(nt > lo && nt < hi) {
            nt = 0.5 * (lo + hi);
        }
        if (nt - t).abs() < 1e-16 {
            t = nt;
            break;
        }
        t = nt;
    }
    bez(y1, y2, t)
}

#[derive(Default, Clone)]
struct EAcc {
    n: u64,
    max_def_err: f64,
    max_def_err_x: f32,
    max_param_err: f64,
    def_checked: u64,
    def_fail: u64,
    param_fail: u64,
    min_y: f64,
    max_y: f64,
    max_backstep_ulps: f64,
}

#[derive(Default)]
struct Acc {
    sink: VSink,
    per: Vec<EAcc>,
    evals: u64,
    mirror_checks: u64,
    samples: Vec<Value>,
}

fn merge(a: &mut Acc, b: Acc) {
    a.sink.merge(b.sink);
    a.evals += b.evals;
    a.mirror_checks += b.mirror_checks;
    if a.per.is_empty() {
        a.per = b.per;
    } else {
        for (x, y) in a.per.iter_mut().zip(b.per) {
            x.n += y.n;
            if y.max_def_err > x.max_def_err {
                x.max_def_err = y.max_def_err;
                x.max_def_err_x = y.max_def_err_x;
            }
            x.max_param_err = x.max_param_err.max(y.max_param_err);
            x.def_checked += y.def_checked;
            x.def_fail += y.def_fail;
            x.param_fail += y.param_fail;
            x.min_y = x.min_y.min(y.min_y);
            x.max_y = x.max_y.max(y.max_y);
            x.max_backstep_ulps = x.max_backstep_ulps.max(y.max_backstep_ulps);
        }
    }
    if a.samples.len() < 3 {
        a.samples.extend(b.samples);
    }
}

pub fn run(run: Run) -> ! {
    let tab = table();
    let (pairs, selfs) = mirror_pairs();
    let thorough = run.is_thorough();
    // x ranges as lists of (start bits, count, stride)
    let one = 1.0f32.to_bits(); // 0x3f800000; [0,1] = bit patterns 0..=one
    let mut ranges: Vec<(u32, u32, u32)> = vec![];
    if thorough {
        let block = 1u32 << 20;
        let mut s = 0u32;
        while s <= one {
            let cnt = block.min(one - s + 1);
            ranges.push((s, cnt, 1));
            s += cnt;
        }
    } else {
        let block = 1u32 << 24;
        let mut s = 0u32;
        while s <= one {
            let cnt = ((one - s) / 64 + 1).min(block / 64);
            ranges.push((s, cnt, 64));
            s += cnt * 64;
        }
        ranges.push((0, 4096, 1));
        ranges.push((one - 4095, 4096, 1));
        // around 0.5 and a few non-dyadic points
        for c in [0.5f32, 0.25, 0.75, 0.1, 0.3, 0.9] {
            ranges.push((c.to_bits() - 512, 1024, 1));
        }
    }
    let def_every: u32 = if thorough { 16 } else { 1 };
    let items: Vec<(usize, usize)> = (0..tab.len()).flat_map(|e| (0..ranges.len()).map(move |r| (e, r))).collect();
    let mut acc = par_fold(
        items.len(),
        || Acc { per: vec![EAcc { min_y: f64::INFINITY, max_y: f64::NEG_INFINITY, ..Default::default() }; 29], ..Default::default() },
        |ii, acc| {
            let (ei, ri) = items[ii];
            let (name, easing, cp) = &tab[ei];
            let (s, cnt, stride) = ranges[ri];
            let is_back = name.contains("Back");
            let mut prev: Option<f32> = None;
            let pe = &mut acc.per[ei];
            for j in 0..cnt {
                let bits = s + j * stride;
                let x = f32::from_bits(bits);
                let y = easing.calc(x);
                acc.evals += 1;
                pe.n += 1;
                let rank = (ei as u64) << 32 | bits as u64;
                let mk = || json!({"easing": name, "x": fj(x), "x_bits": format!("{bits:08x}"), "calc": fj(y)});
                if !y.is_finite() {
                    acc.sink.add(&format!("non-finite:{name}"), rank, || (format!("{name}.calc({x}) = {y}"), mk()));
                    continue;
                }
                pe.min_y = pe.min_y.min(y as f64);
                pe.max_y = pe.max_y.max(y as f64);
                if x == 0.0 && y != 0.0 {
                    acc.sink.add(&format!("endpoint0:{name}"), rank, || (format!("{name}.calc(0) = {y}"), mk()));
                }
                if x == 1.0 && y != 1.0 {
                    acc.sink.add(&format!("endpoint1:{name}"), rank, || (format!("{name}.calc(1) = {y}"), mk()));
                }
                if !is_back {
                    if !(y >= 0.0 && y <= 1.0) {
                        acc.sink.add(&format!("range:{name}"), rank, || (format!("{name}.calc({x}) = {y} outside [0,1]"), mk()));
                    }
                    if let Some(py) = prev {
                        if y < py {
                            let back = (py - y) as f64 / ulp32(py.max(f32::MIN_POSITIVE)) as f64;
                            pe.max_backstep_ulps = pe.max_backstep_ulps.max(back);
                            if back > 2.0 && (py - y) > 2.4e-7 {
                                acc.sink.add(&format!("monotone:{name}"), rank, || (format!("{name}: calc decreases by {} ({back:.1} ulp) approaching x={x}", py - y), mk()));
                            }
                        }
                    }
                    prev = Some(y);
                }
                match cp {
                    None => {
                        if y.to_bits() != x.to_bits() {
                            acc.sink.add("linear-not-identity", rank, || (format!("Linear.calc({x}) = {y}"), mk()));
                        }
                    }
                    Some(cp) => {
                        let param = bez(cp[1], cp[3], x as f64);
                        let perr = (y as f64 - param).abs();
                        pe.max_param_err = pe.max_param_err.max(perr);
                        if perr > 1e-6 {
                            pe.param_fail += 1;
                        }
                        if j % def_every == 0 || perr > 1e-6 {
                            let d = definition(cp, x as f64);
                            let derr = (y as f64 - d).abs();
                            pe.def_checked += 1;
                            if derr > pe.max_def_err {
                                pe.max_def_err = derr;
                                pe.max_def_err_x = x;
                            }
                            if derr > 1e-4 {
                                pe.def_fail += 1;
                            }
                        }
                    }
                }
            }
        },
        merge,
    );
    // definition clause: classify per easing
    let mut def_summary = vec![];
    for (ei, (name, _e, cp)) in tab.iter().enumerate() {
        let Some(cp) = cp else { continue };
        let pe = &acc.per[ei];
        def_summary.push(json!({"easing": name, "max_abs_error_vs_definition": pe.max_def_err, "at_x": pe.max_def_err_x, "max_abs_error_vs_parametric_reading": pe.max_param_err, "points": pe.n}));
        if pe.def_fail > 0 {
            let x = pe.max_def_err_x;
            let d = definition(cp, x as f64);
            let y = tab[ei].1.calc(x);
            if pe.param_fail == 0 {
                // exactly the parametric misreading with the published control points
                acc.sink.add(&format!("definition:parametric:{name}"), ei as u64, || {
                    (
                        format!("{name}.calc({x}) = {y} but cubic-bezier({},{},{},{}) at horizontal position x is {d:.6} (max error {:.4}); calc equals the curve's y sampled at PARAMETER x everywhere (max dev {:.1e})", cp[0], cp[1], cp[2], cp[3], pe.max_def_err, pe.max_param_err),
                        json!({"easing": name, "x": fj(x), "calc": fj(y), "definition": d, "control_points": cp}),
                    )
                });
            } else {
                acc.sink.add(&format!("definition:other:{name}"), ei as u64, || {
                    (
                        format!("{name}.calc({x}) = {y}, definition {d:.6}; differs from both the definition ({} points) and the parametric reading ({} points)", pe.def_fail, pe.param_fail),
                        json!({"easing": name, "x": fj(x), "calc": fj(y), "definition": d, "control_points": cp}),
                    )
                });
            }
        }
    }
    // user-built Bezier curves (`CubicBezierEasing::new`, documented for use in Easing::Custom): a grid of control
    // points, judged like the built-ins - the CSS definition, or (recorded finding F5) the curve's y sampled at
    // parameter x; anything else is a new violation
    {
        let xs = [0.0f32, 0.25, 0.3, 0.5, 0.7, 1.0];
        let ys = [-0.5f32, 0.0, 0.2, 0.5, 1.0, 1.5];
        let (mut curves, mut param_family, mut worst): (u64, u64, (f64, [f32; 4], f32)) = (0, 0, (0.0, [0.0; 4], 0.0));
        for &x1 in &xs {
            for &y1 in &ys {
                for &x2 in &xs {
                    for &y2 in &ys {
                        curves += 1;
                        let cb = mina_core::easing::CubicBezierEasing::new(x1, y1, x2, y2);
                        let via = Easing::Custom(Box::new(cb.clone()));
                        let cp = [x1 as f64, y1 as f64, x2 as f64, y2 as f64];
                        let (mut def_fail, mut param_fail, mut passthrough_fail) = (0u32, 0u32, 0u32);
                        let mut at = 0.0f32;
                        for j in 0..=256 {
                            let x = j as f32 / 256.0;
                            let y = cb.calc(x);
                            if via.calc(x).to_bits() != y.to_bits() {
                                passthrough_fail += 1;
                            }
                            let perr = (y as f64 - bez(cp[1], cp[3], x as f64)).abs();
                            let derr = (y as f64 - definition(&cp, x as f64)).abs();
                            if perr > 3e-6 {
                                param_fail += 1;
                            }
                            if derr > 1e-4 {
                                def_fail += 1;
                                if derr > worst.0 {
                                    worst = (derr, [x1, y1, x2, y2], x);
                                }
                                if at == 0.0 {
                                    at = x;
                                }
                            }
                        }
                        acc.evals += 257;
                        let rank = (1u64 << 40) | curves;
                        if passthrough_fail > 0 {
                            acc.sink.add("custom-not-passed-through:CubicBezierEasing", rank, || (format!("Easing::Custom(CubicBezierEasing::new({x1},{y1},{x2},{y2})) differs from the curve itself at {passthrough_fail} points"), json!({"control_points": cp})));
                        }
                        if def_fail > 0 && param_fail > 0 {
                            acc.sink.add("definition:other:CubicBezierEasing", rank, || {
                                (format!("CubicBezierEasing::new({x1},{y1},{x2},{y2}).calc({at}) = {}: neither the cubic-bezier definition ({}) nor the curve's y at parameter x ({}); {def_fail} / {param_fail} of 257 points differ", cb.calc(at), definition(&cp, at as f64), bez(cp[1], cp[3], at as f64)), json!({"control_points": cp, "x": fj(at)}))
                            });
                        } else if def_fail > 0 {
                            param_family += 1;
                        }
                    }
                }
            }
        }
        if param_family > 0 {
            let (derr, c, x) = worst;
            acc.sink.add("definition:parametric:CubicBezierEasing", 0, || {
                (format!("{param_family} of {curves} user-built curves: CubicBezierEasing::new(x1,y1,x2,y2).calc(x) equals the curve's y sampled at PARAMETER x, not the cubic-bezier timing function (largest deviation {derr:.4} for ({},{},{},{}) at x={x})", c[0], c[1], c[2], c[3]), json!({"curves": curves, "curves_following_the_parametric_reading": param_family}))
            });
        }
    }
    // mirrors on a grid (quick 2^16+1 points; thorough 2^22+1)
    let n = if thorough { 1u32 << 22 } else { 1u32 << 16 };
    let macc = par_fold(
        pairs.len() + selfs.len(),
        Acc::default,
        |i, acc| {
            let (a, b) = if i < pairs.len() { pairs[i] } else { (selfs[i - pairs.len()], selfs[i - pairs.len()]) };
            let (ea, eb) = (&tab[a].1, &tab[b].1);
            for j in 0..=n {
                let x = j as f32 / n as f32;
                let l = eb.calc(x);
                let r = 1.0 - ea.calc(1.0 - x);
                acc.mirror_checks += 1;
                if (l - r).abs() > 1e-5 {
                    acc.sink.add(&format!("mirror:{}:{}", tab[a].0, tab[b].0), (i as u64) << 32 | j as u64, || {
                        (format!("{}({x}) = {l} but 1 - {}(1-x) = {r}", tab[b].0, tab[a].0), json!({"pair": [tab[a].0, tab[b].0], "x": fj(x)}))
                    });
                }
            }
        },
        merge,
    );
    acc.mirror_checks = macc.mirror_checks;
    acc.sink.merge(macc.sink);
    // Custom easing used as given: directly (incl. the endpoints and inputs outside [0,1]) and
    // through a timeline (incl. t = 0, where the position is exactly 0). Customs 3..5 are not
    // anchored at (0,0)/(1,1).
    let mut custom_checks = 0u64;
    for id in [1u8, 2, 3, 4, 5] {
        let e = Easing::Custom(Box::new(PolyEasing(id)));
        let f = PolyEasing(id);
        let tl = P::timeline()
            .duration_seconds(1.0)
            .keyframe(P::keyframe(0.0).a(0.0).easing(Easing::Custom(Box::new(PolyEasing(id)))))
            .keyframe(P::keyframe(1.0).a(1.0))
            .build();
        let mut xs: Vec<f32> = (0..=(1u32 << 16)).map(|j| j as f32 / 65536.0).collect();
        xs.extend([-0.5, -f32::MIN_POSITIVE, f32::MIN_POSITIVE, f32::from_bits(1.0f32.to_bits() - 1), f32::from_bits(1.0f32.to_bits() + 1), 1.5, 2.0]);
        for (j, &x) in xs.iter().enumerate() {
            custom_checks += 1;
            if e.calc(x).to_bits() != f.calc(x).to_bits() {
                let place = if x == 0.0 || x == 1.0 { "endpoint" } else if !(0.0..=1.0).contains(&x) { "outside-unit-interval" } else { "interior" };
                acc.sink.add(&format!("custom-not-used-as-given:direct:{place}"), j as u64, || (format!("Easing::Custom(f{id}).calc({x}) = {} but f({x}) = {}", e.calc(x), f.calc(x)), json!({"custom": id, "x": fj(x)})));
            }
            if (0.0..1.0).contains(&x) {
                let mut p = P::default();
                tl.update(&mut p, x);
                // lerp(0,1,y) = 0*(1-y) + 1*y = y exactly
                let want = 0.0f32 * (1.0 - f.calc(x)) + 1.0 * f.calc(x);
                if p.a.to_bits() != want.to_bits() && !(p.a == 0.0 && want == 0.0) {
                    let place = if x == 0.0 { "at-position-0" } else { "interior" };
                    acc.sink.add(&format!("custom-not-used-as-given:timeline:{place}"), j as u64, || (format!("timeline with Custom easing f{id} at {x}: {} but f(x) = {}", p.a, f.calc(x)), json!({"custom": id, "x": fj(x)})));
                }
            }
        }
    }
    // different custom easings evaluated back to back at the same x must not influence each other
    {
        let es: Vec<(u8, Easing, PolyEasing)> = [1u8, 2, 3, 4, 5].iter().map(|&i| (i, Easing::Custom(Box::new(PolyEasing(i))), PolyEasing(i))).collect();
        for j in 0..=(1u32 << 12) {
            let x = j as f32 / 4096.0;
            for a in 0..es.len() {
                for b in 0..es.len() {
                    if a == b {
                        continue;
                    }
                    custom_checks += 2;
                    let ya = es[a].1.calc(x);
                    let yb = es[b].1.calc(x);
                    if ya.to_bits() != es[a].2.calc(x).to_bits() || yb.to_bits() != es[b].2.calc(x).to_bits() {
                        acc.sink.add("custom-not-used-as-given:interleaved-customs", (a * 8 + b) as u64, || (format!("Custom(f{}).calc({x}) then Custom(f{}).calc({x}) gave {ya}, {yb}; the functions give {}, {}", es[a].0, es[b].0, es[a].2.calc(x), es[b].2.calc(x)), json!({"customs": [es[a].0, es[b].0], "x": fj(x)})));
                    }
                }
            }
        }
    }
    let pts: u64 = acc.per.iter().map(|p| p.n).sum();
    // Two DIFFERENT custom easings in one timeline, one directly after the other for the same property (default easing
    // custom A, first keyframe custom B; and keyframe A followed by keyframe B): each segment uses the custom it names
    for (ia, ib) in [(1u8, 2u8), (2, 1), (3, 4), (5, 1)] {
        let (fa, fb) = (PolyEasing(ia), PolyEasing(ib));
        let tl1 = P::timeline().duration_seconds(1.0).default_easing(Easing::Custom(Box::new(PolyEasing(ia)))).keyframe(P::keyframe(0.0).a(0.0).easing(Easing::Custom(Box::new(PolyEasing(ib))))).keyframe(P::keyframe(1.0).a(1.0)).build();
        let tl2 = P::timeline().duration_seconds(2.0).keyframe(P::keyframe(0.0).a(0.0).easing(Easing::Custom(Box::new(PolyEasing(ia))))).keyframe(P::keyframe(0.5).a(1.0).easing(Easing::Custom(Box::new(PolyEasing(ib))))).keyframe(P::keyframe(1.0).a(0.0)).build();
        for j in 1..64 {
            let x = j as f32 / 64.0;
            custom_checks += 2;
            let mut p = P::default();
            tl1.update(&mut p, x);
            let w1 = 0.0f32 * (1.0 - fb.calc(x)) + 1.0 * fb.calc(x);
            let mut q = P::default();
            tl2.update(&mut q, 1.0 + x);
            let w2 = 1.0f32 * (1.0 - fb.calc(x)) + 0.0 * fb.calc(x);
            let mut r = P::default();
            tl2.update(&mut r, x);
            let w3 = 0.0f32 * (1.0 - fa.calc(x)) + 1.0 * fa.calc(x);
            if p.a.to_bits() != w1.to_bits() || q.a.to_bits() != w2.to_bits() || r.a.to_bits() != w3.to_bits() {
                acc.sink.add("custom-not-used-as-given:second-custom-in-a-timeline", (ia as u64) << 16 | j as u64, || (format!("customs f{ia} then f{ib} in one timeline at fraction {x}: got {} / {} / {}, expected {w1} / {w2} / {w3}", p.a, q.a, r.a), json!({"customs": [ia, ib], "x": fj(x)})));
                break;
            }
        }
    }
    // Custom easings composed from built-ins (a built-in boxed as a custom easing, and a user function that calls
    // a built-in inside its own calc), directly and as a timeline's default easing: used as given, no panic.
    {
        #[derive(Clone, Debug)]
        struct Mirrored(Easing);
        impl EasingFunction for Mirrored {
            fn calc(&self, x: f32) -> f32 {
                1.0 - self.0.calc(1.0 - x)
            }
        }
        for (ei, (name, e, _)) in tab.iter().enumerate() {
            let r = std::panic::catch_unwind(std::panic::AssertUnwindSafe(|| {
                let boxed = Easing::Custom(Box::new(e.clone()));
                let mirrored = Easing::Custom(Box::new(Mirrored(e.clone())));
                let tl = P::timeline().duration_seconds(1.0).default_easing(Easing::Custom(Box::new(e.clone()))).keyframe(P::keyframe(0.0).a(0.0)).keyframe(P::keyframe(1.0).a(1.0)).build();
                let mut bad: Option<(f32, f32, f32)> = None;
                for j in 0..=64 {
                    let x = j as f32 / 64.0;
                    let want = e.calc(x);
                    let mut p = P::default();
                    tl.update(&mut p, x);
                    let via_tl = 0.0f32 * (1.0 - want) + 1.0 * want;
                    if boxed.calc(x).to_bits() != want.to_bits() || mirrored.calc(x).to_bits() != (1.0 - e.calc(1.0 - x)).to_bits() || (x < 1.0 && p.a.to_bits() != via_tl.to_bits() && !(p.a == 0.0 && via_tl == 0.0)) {
                        bad = Some((x, boxed.calc(x), want));
                        break;
                    }
                }
                bad
            }));
            custom_checks += 65 * 3;
            match r {
                Err(_) => acc.sink.add("custom-composed-from-built-in:panic", ei as u64, || (format!("a custom easing that evaluates Easing::{name} inside its own calc panics"), json!({"easing": name}))),
                Ok(Some((x, got, want))) => acc.sink.add("custom-composed-from-built-in:not-used-as-given", ei as u64, || (format!("Easing::Custom(Box::new(Easing::{name})).calc({x}) = {got}, Easing::{name}.calc({x}) = {want}"), json!({"easing": name, "x": fj(x)}))),
                Ok(None) => {}
            }
        }
    }
    // Order independence (exact): the value at x must not depend on which input the same easing was asked about
    // just before (a neighbouring float, or a far-away one)
    for (ei, (name, e, _)) in tab.iter().enumerate() {
        for j in 1..64 {
            let x = j as f32 / 64.0;
            for nb in [f32::from_bits(x.to_bits() + 1), f32::from_bits(x.to_bits() - 1), x] {
                let _ = e.calc(0.9375 - x * 0.5);
                let a = e.calc(x);
                let _ = e.calc(nb);
                let b = e.calc(x);
                let _ = e.calc(nb);
                let c = e.calc(nb);
                let _ = e.calc(0.03125 + x * 0.25);
                let d = e.calc(nb);
                custom_checks += 2;
                if a.to_bits() != b.to_bits() || c.to_bits() != d.to_bits() {
                    acc.sink.add(&format!("depends-on-previous-evaluation:{name}"), (ei as u64) << 16 | j as u64, || (format!("Easing::{name}: calc({x}) = {a} after a far-away input but {b} after calc({nb}); calc({nb}) = {c} / {d}"), json!({"easing": name, "x": fj(x), "neighbour": fj(nb)})));
                }
            }
        }
    }
    let mut cov = Map::new();
    cov.insert("states".into(), json!(pts / 29));
    cov.insert("transitions".into(), json!(acc.evals + 2 * acc.mirror_checks + 2 * custom_checks));
    cov.insert("traces_validated_against_impl".into(), json!(acc.per.iter().map(|p| p.def_checked).sum::<u64>()));
    cov.insert("evaluations".into(), json!(acc.evals));
    cov.insert("distinct_nontrivial".into(), json!(pts));
    cov.insert("rule".into(), json!(if thorough { "ALL 1 065 353 217 f32 values of [0,1] x 29 built-in easings (definition reference at every 16th value and wherever the parametric reading is not matched); 1296 user-built CubicBezierEasing curves on a 1/256 grid; mirrors on a 2^22 grid; non-trivial = (easing, x) evaluations" } else { "every 64th f32 bit pattern of [0,1] (1.66e7 points) plus the 4096 patterns next to 0 and next to 1 and 1024 around 1/2,1/4,3/4,0.1,0.3,0.9, x 29 built-in easings; 1296 user-built CubicBezierEasing curves (control points x in {0,.25,.3,.5,.7,1}, y in {-.5,0,.2,.5,1,1.5}) on a 1/256 grid, directly and through Easing::Custom; mirrors on a 2^16 grid; non-trivial = (easing, x) evaluations" }));
    cov.insert("exhaustive".into(), json!(true));
    cov.insert("oracles".into(), json!("calc(0)==0, calc(1)==1 exactly; non-Back: 0<=y<=1 and y(next x) >= y(x) - 2 ulp; Linear identity bit-for-bit; |Out(x) - (1-In(1-x))| <= 1e-5 and InOut self-mirror; Custom(f) == f bit-for-bit directly and through a timeline, also for customs that wrap or call a built-in; calc(x) independent of the previously evaluated input (neighbouring floats); definition: |calc(x) - B_y(t*)| <= 1e-4 with B_x(t*) = x from an independent control-point table"));
    cov.insert("per_easing_definition_summary".into(), json!(def_summary));
    cov.insert("mirror_checks".into(), json!(acc.mirror_checks));
    cov.insert("custom_checks".into(), json!(custom_checks));
    cov.insert("max_backward_step_ulps_nonback".into(), json!(acc.per.iter().map(|p| p.max_backstep_ulps).fold(0.0, f64::max)));
    cov.insert("samples".into(), json!([{"easing": "OutQuad", "x": 0.4, "calc": Easing::OutQuad.calc(0.4), "definition": definition(&[0.5, 1.0, 0.89, 1.0], 0.4f32 as f64)}, {"easing": "Ease", "x": 0.25, "calc": Easing::Ease.calc(0.25), "definition": definition(&[0.25, 0.1, 0.25, 1.0], 0.25)}]));
    run.finish(acc.sink, cov, vec!["control-point table written from the CSS spec / easings.net, independent of core/src/easing.rs".into()])
}

pub fn replay(case: &Value) -> bool {
    let tab = table();
    let name = case["easing"].as_str().unwrap_or("");
    let Some((_, e, cp)) = tab.iter().find(|t| t.0 == name) else {
        println!("case: {case}");
        return false;
    };
    let x = jf(&case["x"]);
    let y = e.calc(x);
    println!("{name}.calc({x}) = {y}");
    if let Some(cp) = cp {
        let d = definition(cp, x as f64);
        println!("definition {d}, parametric {}", bez(cp[1], cp[3], x as f64));
        return (y as f64 - d).abs() <= 1e-4;
    }
    y == x
}
