//! C12 — a merged timeline is an ordered overlay with aggregate timing.

use crate::common::*;
use mina::prelude::*;
use serde_json::{json, Map, Value};
use vlib::spec::*;
use vlib::util::*;

fn kf(pos: f32, a: Option<f32>, k: Option<i32>, e: Option<u8>) -> Kf {
    Kf { pos, a, k, d: None, easing: e }
}

/// Pool of component timelines: heterogeneous timing, property sets {a},{k},{a,k},{}.
pub fn pool() -> Vec<TlSpec> {
    let t = |c, d, r, rev| Timing::new(c, d, r, rev);
    vec![
        TlSpec { kfs: vec![kf(0.0, Some(-64.0), None, None), kf(1.0, Some(96.0), None, None)], default_easing: 0, timing: t(1.0, 0.0, Rep::None, false) },
        TlSpec { kfs: vec![kf(0.0, None, Some(7), None), kf(0.5, None, Some(250), Some(1))], default_easing: 0, timing: t(2.0, 0.5, Rep::None, false) },
        TlSpec { kfs: vec![kf(0.25, Some(16.0), Some(-100), Some(2)), kf(1.0, Some(400.0), Some(64), None)], default_easing: 3, timing: t(1.0, 0.0, Rep::Times(2), false) },
        TlSpec { kfs: vec![kf(0.0, Some(200.0), None, None), kf(0.75, Some(-8.0), None, None)], default_easing: 0, timing: t(2.0, 0.5, Rep::Times(1), true) },
        TlSpec { kfs: vec![kf(0.0, None, Some(1000), None), kf(1.0, None, Some(-31), None)], default_easing: 2, timing: t(1.0, 0.25, Rep::Infinite, true) },
        TlSpec { kfs: vec![kf(0.5, None, None, Some(1))], default_easing: 0, timing: t(4.0, 0.0, Rep::None, true) },
        TlSpec { kfs: vec![kf(0.0, Some(1.0), Some(2), None), kf(1.0, Some(3.0), Some(4), None)], default_easing: 0, timing: t(1.0, 0.0, Rep::Times(0), false) },
        TlSpec { kfs: vec![kf(0.5, Some(-32.0), None, None)], default_easing: 1, timing: t(1.0, 1.0, Rep::Infinite, false) },
        TlSpec { kfs: vec![kf(0.0, None, Some(5), None), kf(1.0, None, Some(505), None)], default_easing: 0, timing: t(0.5, 0.25, Rep::Times(3), true) },
        // over before time 0 (negative total duration)
        TlSpec { kfs: vec![kf(0.0, Some(5.0), None, None), kf(1.0, Some(15.0), None, None)], default_easing: 0, timing: t(2.0, -8.0, Rep::None, false) },
        // metadata only (evaluation of the largest repeat count is C20's subject)
        TlSpec { kfs: vec![kf(1.0, Some(9.0), None, None)], default_easing: 0, timing: t(1.0, 0.0, Rep::Times(u32::MAX), false) },
    ]
}


// ------------------------------------------------------------------------------------------------
// Metadata family: arbitrary component metadata (incl. undefined cycle durations) through stub
// components and nested merged timelines.

#[derive(Clone, Debug)]
struct Stub {
    cycle: Option<f32>,
    delay: f32,
    duration: f32,
    repeat: Repeat,
    tag: i32,
}

impl Timeline for Stub {
    type Target = P;
    fn cycle_duration(&self) -> Option<f32> {
        self.cycle
    }
    fn delay(&self) -> f32 {
        self.delay
    }
    fn duration(&self) -> f32 {
        self.duration
    }
    fn repeat(&self) -> Repeat {
        self.repeat
    }
    fn start_with(&mut self, values: &P) {
        self.tag += values.k;
    }
    fn update(&self, values: &mut P, _time: f32) {
        // order-sensitive overlay marker
        values.k = values.k.wrapping_mul(31).wrapping_add(self.tag);
    }
}

fn stub_pool() -> Vec<Stub> {
    let mut v = vec![];
    let mut tag = 1;
    // incl. cycle durations that differ by one ulp or by less than f32::EPSILON in absolute terms: they do NOT agree
    for cycle in [None, Some(1.0f32), Some(2.0), Some(f32::from_bits(1.0f32.to_bits() + 1)), Some(1.0e-8), Some(5.0e-8)] {
        // incl. a negative delay and negative totals (an animation that was over before time 0)
        for delay in [0.0f32, 0.5, 2.0, -8.0] {
            for duration in [1.0f32, 3.0, f32::INFINITY, -6.0, -2.0] {
                for repeat in [Repeat::None, Repeat::Times(0), Repeat::Times(3), Repeat::Times(16_777_216), Repeat::Times(16_777_217), Repeat::Times(u32::MAX - 1), Repeat::Times(u32::MAX), Repeat::Infinite] {
                    tag += 1;
                    v.push(Stub { cycle, delay, duration, repeat, tag });
                }
            }
        }
    }
    v
}

fn rep_of(r: Repeat) -> Rep {
    match r {
        Repeat::None => Rep::None,
        Repeat::Times(n) => Rep::Times(n),
        Repeat::Infinite => Rep::Infinite,
    }
}

/// Checks the aggregate metadata of `m` against the flat list of leaf stubs `leaves`.
fn check_stub_meta<T: Timeline<Target = P>>(m: &MergedTimeline<T>, leaves: &[&Stub], label: &str, rank: u64, sink: &mut VSink) {
    let desc = || json!({"family": label, "components": leaves.iter().map(|s| format!("{s:?}")).collect::<Vec<_>>()});
    let want_delay = leaves.iter().map(|s| s.delay).fold(f32::INFINITY, f32::min);
    if m.delay().to_bits() != want_delay.to_bits() {
        sink.add(&format!("{label}:delay-not-minimum"), rank, || (format!("delay() = {} but smallest component delay is {}", m.delay(), want_delay), desc()));
    }
    let want_dur = leaves.iter().map(|s| s.duration).fold(f32::NEG_INFINITY, f32::max); // leaves is never empty; totals may be negative
    if m.duration().to_bits() != want_dur.to_bits() {
        sink.add(&format!("{label}:duration-not-maximum"), rank, || (format!("duration() = {} but largest component duration is {}", m.duration(), want_dur), desc()));
    }
    let want_rep = leaves.iter().map(|s| rep_of(s.repeat)).max_by_key(|r| rep_rank(*r)).unwrap();
    if rep_rank(rep_of(m.repeat())) != rep_rank(want_rep) {
        sink.add(&format!("{label}:repeat-not-largest"), rank, || (format!("repeat() = {:?} but largest component repeat is {:?}", m.repeat(), want_rep), desc()));
    }
    let c0 = leaves[0].cycle;
    let want_cycle = if c0.is_some() && leaves.iter().all(|s| s.cycle == c0) { c0 } else { None };
    if m.cycle_duration() != want_cycle {
        sink.add(&format!("{label}:cycle-duration"), rank, || (format!("cycle_duration() = {:?}, expected {:?} (a cycle duration only when all components agree on one)", m.cycle_duration(), want_cycle), desc()));
    }
    // overlay order: components applied in list order
    let mut got = P { k: 1, ..P::default() };
    m.update(&mut got, 0.5);
    let mut want = P { k: 1, ..P::default() };
    for s in leaves {
        s.update(&mut want, 0.5);
    }
    if got.k != want.k {
        sink.add(&format!("{label}:overlay-order"), rank, || ("components not applied in list order".into(), desc()));
    }
}

fn stub_family(thorough: bool) -> (VSink, u64) {
    let pool = stub_pool();
    let np = pool.len();
    let maxlen = if thorough { 3 } else { 2 };
    // flat lists: all lists of length 1..=maxlen (quick: plus length 3 over every 5th stub)
    let sparse: Vec<usize> = (0..np).step_by(5).collect();
    let acc = par_fold(
        np,
        || (VSink::new(), 0u64),
        |i, acc| {
            let mut lists: Vec<Vec<usize>> = vec![vec![i]];
            for j in 0..np {
                lists.push(vec![i, j]);
                if maxlen >= 3 {
                    // (every other third element, alternating with i + j, to bound the cube)
                    for k in ((i + j) % 2..np).step_by(2) {
                        lists.push(vec![i, j, k]);
                    }
                }
            }
            if maxlen < 3 {
                for &j in &sparse {
                    for &k in &sparse {
                        lists.push(vec![i, j, k]);
                    }
                }
            }
            for l in &lists {
                acc.1 += 1;
                let leaves: Vec<&Stub> = l.iter().map(|&x| &pool[x]).collect();
                // `of` takes any IntoIterator: a Vec, a filtered iterator (size hint 0..n), a from_fn iterator (no hint)
                let owned: Vec<Stub> = leaves.iter().map(|s| (*s).clone()).collect();
                let m = match acc.1 % 3 {
                    0 => MergedTimeline::of(owned),
                    1 => MergedTimeline::of(owned.into_iter().filter(|s| s.tag != i32::MIN)),
                    _ => {
                        let mut it = owned.into_iter();
                        MergedTimeline::of(std::iter::from_fn(move || it.next()))
                    }
                };
                let rank = (3u64 << 60) | (l.len() as u64) << 40 | (i as u64) << 20 | acc.1 & 0xfffff;
                check_stub_meta(&m, &leaves, "stub-list", rank, &mut acc.0);
            }
            // wide lists: 5..1025 components, all a background stub except pool[i] at the front, middle or back
            // (the aggregate must not depend on how long the list is or where the deciding component sits)
            for &n in &[5usize, 9, 17, 65, 257, 1025] {
                if n > 65 && i % 5 != 0 && !thorough {
                    continue;
                }
                for &b in &[sparse[1], sparse[sparse.len() / 2]] {
                    for pos in [0, n / 2, n - 1] {
                        acc.1 += 1;
                        let mut leaves: Vec<&Stub> = vec![&pool[b]; n];
                        leaves[pos] = &pool[i];
                        let m = MergedTimeline::of(leaves.iter().map(|s| (*s).clone()).collect::<Vec<_>>());
                        let rank = (5u64 << 60) | (n as u64) << 40 | (i as u64) << 20 | (b as u64) << 4 | pos.min(2) as u64;
                        check_stub_meta(&m, &leaves, "wide-list", rank, &mut acc.0);
                    }
                }
            }
            // clone_from: a merged timeline that held a longer (or shorter) list is overwritten with [i] or [i, j]
            for &j in &sparse {
                for longer in [vec![pool[j].clone(), pool[i].clone(), pool[(i + j) % np].clone()], vec![pool[j].clone()], vec![]] {
                    for src in [vec![i], vec![i, j]] {
                        acc.1 += 1;
                        let leaves: Vec<&Stub> = src.iter().map(|&x| &pool[x]).collect();
                        let b = MergedTimeline::of(leaves.iter().map(|s| (*s).clone()).collect::<Vec<_>>());
                        let mut a = MergedTimeline::of(longer.clone());
                        let rank = (6u64 << 60) | (longer.len() as u64) << 40 | (i as u64) << 20 | j as u64;
                        if std::panic::catch_unwind(std::panic::AssertUnwindSafe(|| a.clone_from(&b))).is_err() {
                            acc.0.add("clone_from:panic", rank, || (format!("clone_from of a merged timeline of {} components into one of {} panicked", src.len(), longer.len()), json!({"clone_from": {"target_components": longer.len(), "source_components": src.len()}})));
                            continue;
                        }
                        check_stub_meta(&a, &leaves, "clone_from", rank, &mut acc.0);
                        // ... also through an Option slot
                        let mut slot = Some(MergedTimeline::of(longer.clone()));
                        slot.clone_from(&Some(b.clone()));
                        check_stub_meta(slot.as_ref().unwrap(), &leaves, "clone_from", rank, &mut acc.0);
                    }
                }
            }
            // nested: [[i, j], [k]] and [[i], [j, k]] over the sparse pool
            for &j in &sparse {
                for &k in &sparse {
                    acc.1 += 2;
                    let leaves = vec![&pool[i], &pool[j], &pool[k]];
                    let rank = (4u64 << 60) | (i as u64) << 20 | (j as u64) << 10 | k as u64;
                    let n1 = MergedTimeline::of([MergedTimeline::of([pool[i].clone(), pool[j].clone()]), MergedTimeline::of([pool[k].clone()])]);
                    check_stub_meta(&n1, &leaves, "nested-merged", rank, &mut acc.0);
                    let n2 = MergedTimeline::of([MergedTimeline::of([pool[i].clone()]), MergedTimeline::of([pool[j].clone(), pool[k].clone()])]);
                    check_stub_meta(&n2, &leaves, "nested-merged", rank, &mut acc.0);
                }
            }
        },
        |a, b| {
            a.0.merge(b.0);
            a.1 += b.1;
        },
    );
    acc
}

#[derive(Default)]
struct Acc {
    sink: VSink,
    lists: u64,
    evals: u64,
    meta_checks: u64,
    disjoint_orders: u64,
    samples: Vec<Value>,
    outcomes: std::collections::HashSet<u64>,
}

fn rep_rank(r: Rep) -> (u8, u64) {
    match r {
        // None and Times(0) both play exactly one cycle and are not ordered by the statement:
        // either is "the largest" of the two.
        Rep::None => (1, 0),
        Rep::Times(n) => (1, n as u64),
        Rep::Infinite => (2, 0),
    }
}

fn props(s: &TlSpec) -> (bool, bool) {
    (s.kfs.iter().any(|k| k.a.is_some()), s.kfs.iter().any(|k| k.k.is_some()))
}

pub fn run(run: Run) -> ! {
    let maxlen = if run.is_thorough() { 5 } else { 4 };
    let pool = pool();
    let np = pool.len();
    let meta_only = np - 1;
    // all lists of length 0..=maxlen
    let mut lists: Vec<Vec<usize>> = vec![vec![]];
    let mut frontier: Vec<Vec<usize>> = vec![vec![]];
    for _ in 0..maxlen {
        let mut next = vec![];
        for l in &frontier {
            for c in 0..np {
                let mut x = l.clone();
                x.push(c);
                next.push(x);
            }
        }
        lists.extend(next.iter().cloned());
        frontier = next;
    }
    let mut times: Vec<f32> = pool[..meta_only].iter().flat_map(|s| tau(&s.timing, 16)).collect();
    times.sort_by(|a, b| a.total_cmp(b));
    times.dedup();
    let targets = [P::sentinel(), P { a: 3.5, k: 41, d: -0.125, u: 9.0, z: -2.0 }];
    let vs = vstar();
    let acc = par_fold(
        lists.len(),
        Acc::default,
        |li, acc| {
            let list = &lists[li];
            acc.lists += 1;
            let rank = (list.len() as u64) << 40 | li as u64;
            let comps: Vec<PTimeline> = list.iter().map(|&c| pool[c].build()).collect();
            let merged = MergedTimeline::of(comps.clone());
            let desc = || json!({"merged_list_pool_indices": list, "components": list.iter().map(|&c| pool[c].to_json()).collect::<Vec<_>>()});
            // ---- metadata
            if !list.is_empty() {
                acc.meta_checks += 1;
                let want_delay = list.iter().map(|&c| pool[c].timing.delay).fold(f32::INFINITY, f32::min);
                if merged.delay().to_bits() != want_delay.to_bits() {
                    acc.sink.add("metadata:delay-not-minimum", rank, || (format!("delay() = {} but smallest component delay is {}", merged.delay(), want_delay), desc()));
                }
                let any_inf = list.iter().any(|&c| pool[c].timing.rep == Rep::Infinite);
                let want_total = list.iter().filter_map(|&c| pool[c].timing.total()).fold(f64::NEG_INFINITY, f64::max);
                let got_d = std::panic::catch_unwind(std::panic::AssertUnwindSafe(|| merged.duration()));
                match got_d {
                    Err(_) => acc.sink.add("metadata:duration-panics", rank, || ("duration() panicked".into(), desc())),
                    Ok(d) => {
                        if any_inf {
                            if d != f32::INFINITY {
                                acc.sink.add("metadata:duration-not-infinite", rank, || (format!("duration() = {d} although a component repeats infinitely"), desc()));
                            }
                        } else if ((d as f64) - want_total).abs() > 2.0 * (ulp32(want_total as f32) as f64) {
                            let sig = if list.contains(&meta_only) { "metadata:duration-not-maximum:with-Times(u32::MAX)" } else { "metadata:duration-not-maximum" };
                            acc.sink.add(sig, rank, || (format!("duration() = {d} but the largest component total is {want_total}"), desc()));
                        }
                    }
                }
                let want_rep = list.iter().map(|&c| pool[c].timing.rep).max_by_key(|r| rep_rank(*r)).unwrap();
                let got_rep = match merged.repeat() { Repeat::None => Rep::None, Repeat::Times(n) => Rep::Times(n), Repeat::Infinite => Rep::Infinite };
                if rep_rank(got_rep) != rep_rank(want_rep) {
                    let sig = if list.contains(&meta_only) { "metadata:repeat-not-largest:with-Times(u32::MAX)" } else { "metadata:repeat-not-largest" };
                    acc.sink.add(sig, rank, || (format!("repeat() = {:?} but the largest component repeat is {:?}", merged.repeat(), want_rep), desc()));
                }
                let c0 = pool[list[0]].timing.cycle;
                let all_same = list.iter().all(|&c| pool[c].timing.cycle == c0);
                let want_cycle = if all_same { Some(c0) } else { None };
                if merged.cycle_duration() != want_cycle {
                    acc.sink.add("metadata:cycle-duration", rank, || (format!("cycle_duration() = {:?}, expected {:?}", merged.cycle_duration(), want_cycle), desc()));
                }
            }
            if list.contains(&meta_only) {
                return;
            }
            // ---- evaluation: merged == sequential application
            let mut merged_s = merged.clone();
            merged_s.start_with(&vs);
            let comps_s: Vec<PTimeline> = comps.iter().map(|c| { let mut x = c.clone(); x.start_with(&vs); x }).collect();
            for init in &targets {
                for &t in &times {
                    for (m, cs, label) in [(&merged, &comps, "plain"), (&merged_s, &comps_s, "start_with")] {
                        let mut got = init.clone();
                        m.update(&mut got, t);
                        let mut want = init.clone();
                        for c in cs.iter() {
                            c.update(&mut want, t);
                        }
                        acc.evals += 1;
                        if acc.outcomes.len() < 4096 {
                            acc.outcomes.insert(got.bits()[0] ^ (got.bits()[1] << 32));
                        }
                        if got.bits() != want.bits() {
                            acc.sink.add(&format!("overlay:{label}:differs-from-sequential-application"), rank, || {
                                (format!("t={t}: merged gives {:?}, components applied in order give {:?}", got, want), { let mut d = desc(); d["time"] = fj(t); d["target_before"] = init.to_json(); d["variant"] = json!(label); d })
                            });
                        }
                    }
                }
            }
            // ---- single-element list == the timeline itself (values above; metadata here)
            if list.len() == 1 {
                let single: MergedTimeline<PTimeline> = MergedTimeline::from(comps[0].clone());
                let t0 = &comps[0];
                if single.delay().to_bits() != t0.delay().to_bits() || single.duration().to_bits() != t0.duration().to_bits() || single.repeat() != t0.repeat() || single.cycle_duration() != t0.cycle_duration() {
                    acc.sink.add("wrap-single:metadata-changed", rank, || ("MergedTimeline::from(t) reports different metadata than t".into(), desc()));
                }
                for &t in &times {
                    let mut g = targets[0].clone();
                    single.update(&mut g, t);
                    let w = eval_real(t0, t, &targets[0]);
                    acc.evals += 1;
                    if g.bits() != w.bits() {
                        acc.sink.add("wrap-single:values-changed", rank, || (format!("t={t}"), desc()));
                    }
                }
            }
            // ---- disjoint property sets: every order of the list agrees
            let ps: Vec<(bool, bool)> = list.iter().map(|&c| props(&pool[c])).collect();
            let disjoint = ps.iter().filter(|p| p.0).count() <= 1 && ps.iter().filter(|p| p.1).count() <= 1;
            if disjoint && list.len() >= 2 {
                for perm in permutations(list.len()).into_iter().skip(1) {
                    acc.disjoint_orders += 1;
                    let pm = MergedTimeline::of(perm.iter().map(|&j| comps[j].clone()).collect::<Vec<_>>());
                    for &t in &times {
                        let mut g = targets[0].clone();
                        pm.update(&mut g, t);
                        let mut w = targets[0].clone();
                        merged.update(&mut w, t);
                        acc.evals += 1;
                        if g.bits() != w.bits() {
                            acc.sink.add("disjoint:order-matters", rank, || (format!("t={t}: order {:?} gives {:?}, list order gives {:?}", perm, g, w), desc()));
                        }
                    }
                }
            }
            if acc.samples.len() < 2 && list.len() == 3 && li % 97 == 3 {
                let mut d = desc();
                let mut g = targets[0].clone();
                merged.update(&mut g, 0.8125);
                d["time"] = json!(0.8125);
                d["got"] = g.to_json();
                d["metadata"] = json!({"delay": merged.delay(), "duration": fj(merged.duration()), "repeat": format!("{:?}", merged.repeat()), "cycle": merged.cycle_duration()});
                acc.samples.push(d);
            }
        },
        |a, b| {
            a.sink.merge(b.sink);
            a.lists += b.lists;
            a.evals += b.evals;
            a.meta_checks += b.meta_checks;
            a.disjoint_orders += b.disjoint_orders;
            a.outcomes.extend(b.outcomes);
            if a.samples.len() < 3 {
                a.samples.extend(b.samples);
            }
        },
    );
    let mut acc = acc;
    let (ssink, stub_lists) = stub_family(run.is_thorough());
    acc.sink.merge(ssink);
    acc.lists += stub_lists;
    let mut cov = Map::new();
    cov.insert("states".into(), json!(acc.lists));
    cov.insert("transitions".into(), json!(acc.evals));
    cov.insert("traces_validated_against_impl".into(), json!(acc.evals));
    cov.insert("evaluations".into(), json!(acc.evals));
    cov.insert("distinct_nontrivial".into(), json!(acc.lists - 1));
    cov.insert("rule".into(), json!(format!("ALL lists of length 0..={maxlen} over a pool of {np} component timelines (property sets {{a}},{{k}},{{a,k}},{{}}; delays 0..1; cycles 1/2,1,2,4; repeat None/Times 0,1,2,3/Infinite/Times(u32::MAX, metadata only); reverse on/off); oracle: merged.update == components applied in order (bit-equal; fresh and dirty targets; union of the components' time grids), same after start_with, all orders agree when property sets are disjoint ({} permuted lists), delay=min, duration=max (inf if any), repeat=largest in None<Times n<Infinite, cycle_duration=Some iff all equal, MergedTimeline::from(t) == t; plus a metadata family of {} lists over 960 stub components (cycle undefined/1/2/1+1ulp/1e-8/5e-8 x delay 0/0.5/2/-8 x duration 1/3/inf/-6/-2 x repeat None/Times 0/Times 3/Times 2^24/Times 2^24+1/Times(u32::MAX-1)/Times(u32::MAX)/Infinite): flat lists (built from a Vec, a filtered iterator or a from_fn iterator in rotation), nested merged timelines [[a,b],[c]], [[a],[b,c]] WIDE lists (5..1025 components: a background stub with one other stub at the front, middle or back) and merged timelines overwritten by clone_from (from a longer, shorter or empty list, directly and through an Option slot) with the same oracle; non-trivial = non-empty lists", acc.disjoint_orders, stub_lists)));
    cov.insert("exhaustive".into(), json!(true));
    cov.insert("metadata_checks".into(), json!(acc.meta_checks));
    cov.insert("distinct_observed_outcomes_capped".into(), json!(acc.outcomes.len()));
    cov.insert("samples".into(), json!(acc.samples));
    run.finish(acc.sink, cov, vec!["relational oracle for values; metadata compared with exact f64 arithmetic on the configured numbers".into()])
}

pub fn replay(case: &Value) -> bool {
    let pool = pool();
    let list: Vec<usize> = case["merged_list_pool_indices"].as_array().map(|a| a.iter().map(|x| x.as_u64().unwrap() as usize).collect()).unwrap_or_default();
    let comps: Vec<PTimeline> = list.iter().map(|&c| pool[c].build()).collect();
    let merged = MergedTimeline::of(comps.clone());
    println!("list {:?}: delay {} duration {:?} repeat {:?} cycle {:?}", list, merged.delay(), std::panic::catch_unwind(std::panic::AssertUnwindSafe(|| merged.duration())), merged.repeat(), merged.cycle_duration());
    if !case["time"].is_null() {
        let t = jf(&case["time"]);
        let init = P::from_json(&case["target_before"]);
        let mut g = init.clone();
        merged.update(&mut g, t);
        let mut w = init.clone();
        for c in &comps {
            c.update(&mut w, t);
        }
        println!("merged {:?}\nsequential {:?}", g, w);
        return g.bits() == w.bits();
    }
    false
}
