#!/bin/bash
# usage: try_seed_dev.sh <patch.diff> <check ids...> : like try_seed.sh but on the staging copies
# (/tmp/seed/stage = worktree of /repo, /tmp/vdev = worktree of /verif with paths pointed at the stage),
# so that /repo and /verif stay untouched while a long run uses them.
P=$1; shift
cd /tmp/seed/stage && git status --short | grep -q . && { echo "stage not clean"; exit 2; }
git -C /tmp/seed/stage apply "$P" || { echo "patch does not apply"; exit 2; }
for c in "$@"; do
  out=$(cd /tmp/vdev && ./check $c quick 2>&1); rc=$?
  echo "== $c rc=$rc :: $(echo "$out" | grep -E "violation signature|MACHINERY" | sed 's/::.*//' | tr '\n' ';' | cut -c1-600)"
done
git -C /tmp/seed/stage checkout -- . ; git -C /tmp/seed/stage status --short
