#!/bin/bash
# usage: try_seed.sh <patch.diff> <check ids...> : applies the patch to /repo, runs the quick checks, reverts.
P=$1; shift
cd /repo && git status --short | grep -q . && { echo "/repo not clean"; exit 2; }
git -C /repo apply "$P" || { echo "patch does not apply"; exit 2; }
for c in "$@"; do
  out=$(cd /verif && ./check $c quick 2>&1); rc=$?
  echo "== $c rc=$rc :: $(echo "$out" | grep -E "violation signature" | sed 's/::.*//' | tr '\n' ';' | cut -c1-600)"
done
git -C /repo checkout -- . ; git -C /repo status --short
