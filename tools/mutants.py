#!/usr/bin/env python3
"""Own mutation campaign: small property-breaking edits to /repo, each tried against the pinned suite
(must still pass to count) and against the checks named for it. Usage:
    tools/mutants.py [name ...]      run all (or the named) mutants, print a table, write seeded/mutants.json
/repo must be clean; every mutant is reverted with `git checkout -- .` afterwards.
"""
import json, subprocess, sys, os, time

REPO = "/repo"
VERIF = "/verif"

# (name, file, old, new, property, checks to run, description)
M = [
 ("tsc-reverse-ge", "core/src/time_scale.rs", "true if cycle_ratio > 0.5 =>", "true if cycle_ratio >= 0.5 =>", "C03", ["C03", "C02", "C10"], "reverse fold threshold >= instead of >: the peak instant counts as reversing"),
 ("tsc-none-ge", "core/src/time_scale.rs", "Repeat::None if time > self.duration =>", "Repeat::None if time >= self.duration =>", "C03", ["C03", "C02"], "non-repeating timeline ends AT the total instead of after it"),
 ("tsc-hold-quot", "core/src/time_scale.rs", "(self.duration, quot > 1.0)", "(self.duration, quot >= 1.0)", "C03", ["C03", "C10"], "end of the first cycle flagged as repeating"),
 ("tsc-ended-reverse-pos", "core/src/time_scale.rs", "let normalized_time = if self.reverse { 0.0 } else { 1.0 };", "let normalized_time = if self.reverse && self.repeat != Repeat::None { 0.0 } else { 1.0 };", "C02", ["C02", "C03", "C07"], "ended position of a non-repeating reversing timeline is 100% instead of 0%"),
 ("tsc-duration-no-delay", "core/src/time_scale.rs", "self.delay + self.duration * (self.repeat.as_ordinal() + 1) as f32", "self.duration * (self.repeat.as_ordinal() + 1) as f32 + self.delay * 0.0 + if self.delay > 100.0 { self.delay } else { self.delay }", None, [], "(no-op control)"),
 ("pf-err-no-minus", "core/src/timeline.rs", "Err(next_index) => next_index.max(1) - 1,", "Err(next_index) => next_index.min(boundary_times.len() - 1),", "C01", ["C01", "C02"], "frame lookup takes the NEXT master keyframe as hint"),
 ("pf-ended-override", "core/src/timeline.rs", "TimeScalePosition::Ended(t) => (t, false),", "TimeScalePosition::Ended(t) => (t, true),", "C10", ["C10", "C02", "C07"], "start override alive after the end"),
 ("pf-override-repeat-only", "core/src/timeline.rs", "(t, !loop_state.is_repeating && !loop_state.is_reversing),", "(t, !loop_state.is_repeating),", "C10", ["C10", "C01"], "start override also on the first reverse pass"),
 ("sub-index-map", "core/src/timeline_helpers.rs", "frame_index_map.push(converted_frames.len().max(1) - 1);", "frame_index_map.push(converted_frames.len().saturating_sub(if converted_frames.len() > 2 { 2 } else { 1 }));", "C01", ["C01", "C02"], "index map points one frame too early once there are more than two frames"),
 ("sub-trailing-lt", "core/src/timeline_helpers.rs", "Some(frame) if frame.normalized_time < 1.0 =>", "Some(frame) if frame.normalized_time < 0.75 =>", "C01", ["C01", "C02", "C07"], "implicit 100% frame only added when the last keyframe is before 75%"),
 ("sub-override-once", "core/src/timeline_helpers.rs", "        if let Some(first_frame) = self.frames.first() {\n            self.start_frame_override = Some(first_frame.with_value(value));", "        if let (Some(first_frame), None) = (self.frames.first(), &self.start_frame_override) {\n            self.start_frame_override = Some(first_frame.with_value(value));", "C09", ["C09", "C04", "C05"], "only the first start_with takes effect"),
 ("sub-clamp-hi", "core/src/timeline_helpers.rs", "let normalized_time = normalized_time.clamp(0.0, 1.0);", "let normalized_time = normalized_time.clamp(0.0, 0.999);", "C02", ["C02", "C01", "C07"], "position clamped just below 100%"),
 ("sub-dur-zero", "core/src/timeline_helpers.rs", "    if duration == 0.0 {\n        return start_frame.value.clone();", "    if duration <= 0.25 {\n        return start_frame.value.clone();", "C01", ["C01"], "segments of length <= 1/4 do not interpolate"),
 ("lerp-int-trunc-i16", "core/src/interpolation.rs", "impl_lerp_for_integer_types! { i8, i16, i32, i64, u8, u16, u32, u64, usize }", "impl_lerp_for_integer_types! { i8, i32, i64, u8, u16, u32, u64, usize }\nimpl Lerp for i16 {\n    fn lerp(&self, y1: &Self, x: f32) -> Self {\n        (*self as f32).lerp(&(*y1 as f32), x) as i16\n    }\n}", "C14", ["C14", "C17"], "i16 lerp truncates instead of rounding"),
 ("lerp-f64-order", "core/src/interpolation.rs", "(*self as f32 * (1.0 - x) + *y1 as f32 * x) as f64", "(*self as f32 * x + *y1 as f32 * (1.0 - x)) as f64", "C14", ["C14", "C04", "C17"], "f64 lerp swaps the weights"),
 ("glam-z-from-y", "core/src/glam.rs", "Self::new(self.x.lerp(&b.x, t), self.y.lerp(&b.y, t), self.z.lerp(&b.z, t))", "Self::new(self.x.lerp(&b.x, t), self.y.lerp(&b.y, t), self.z.lerp(&b.y, t))", "C14", ["C14"], "3-component vectors interpolate z towards b.y"),
 ("easing-swap-quart", "core/src/easing.rs", "Self::InQuart => EASE_IN_QUART.calc(x),\n            Self::OutQuart => EASE_OUT_QUART.calc(x),", "Self::InQuart => EASE_OUT_QUART.calc(x),\n            Self::OutQuart => EASE_IN_QUART.calc(x),", "C13", ["C13"], "InQuart and OutQuart swapped in the dispatch"),
 ("easing-digit", "core/src/easing.rs", "static ref EASE_IN_OUT_CIRC: CubicBezierEasing = cubic_bezier(0.85, 0.0, 0.15, 1.0);", "static ref EASE_IN_OUT_CIRC: CubicBezierEasing = cubic_bezier(0.85, 0.0, 0.15, 1.1);", "C13", ["C13"], "one control-point digit of InOutCirc"),
 ("merged-delay-max", "core/src/timeline.rs", ".min_by(|a, b| a.partial_cmp(b).unwrap_or(Ordering::Less))\n            .unwrap_or(0.)", ".max_by(|a, b| a.partial_cmp(b).unwrap_or(Ordering::Less))\n            .unwrap_or(0.)", "C12", ["C12", "C07"], "merged delay = largest component delay"),
 ("merged-update-rev", "core/src/timeline.rs", "        for timeline in &self.timelines {\n            timeline.update(values, time);", "        for timeline in self.timelines.iter().rev() {\n            timeline.update(values, time);", "C12", ["C12", "C05"], "merged components applied in reverse order"),
 ("merged-start-first", "core/src/timeline.rs", "        for timeline in self.timelines.iter_mut() {\n            timeline.start_with(values);", "        for timeline in self.timelines.iter_mut().take(1) {\n            timeline.start_with(values);", "C12", ["C12", "C04", "C10"], "start_with reaches only the first component"),
 ("anim-is-ended-gt", "core/src/animator.rs", "self.state_duration.as_secs_f32() >= current_timeline.duration()", "self.state_duration.as_secs_f32() > current_timeline.duration()", "C07", ["C07"], "is_ended only strictly after the total duration"),
 ("anim-no-initial-blend", "core/src/animator.rs", "        animator.blend_next_timeline(&initial_state);\n        animator", "        animator", "C05", ["C05", "C16", "C04"], "initial state's timeline is not blended from the initial values"),
 ("anim-keep-time-unanimated", "core/src/animator.rs", "                self.blend_next_timeline(state);\n                self.state_duration = Duration::ZERO;", "                self.blend_next_timeline(state);\n                if will_animate {\n                    self.state_duration = Duration::ZERO;\n                }", "C05", ["C05", "C07", "C04"], "time in state not reset when entering an un-animated state"),
 ("anim-blend-after-update", "core/src/animator.rs", "        self.current_state = state.clone();\n        self.update_current_values();", "        self.current_state = state.clone();\n        self.update_current_values();\n        if self.paused_animation.is_none() && self.state_duration == Duration::ZERO {\n            self.blend_next_timeline(state);\n        }", "C04", ["C04", "C05"], "timeline re-blended from the values after the update"),
 ("mac-ms", "macros/src/fn_timeline.rs", "\"ms\" => Ok(0.001),", "\"ms\" => Ok(0.01),", "C15", ["C15"], "ms multiplier"),
 ("mac-percent", "macros/src/fn_timeline.rs", "lit.as_f32()? * 0.01,", "lit.as_f32()? * 0.1,", "C15", ["C15", "C16"], "percent multiplier"),
 ("mac-times-minus1", "macros/src/fn_timeline.rs", "let times: u32 = lit_int.base10_parse()?;", "let times: u32 = lit_int.base10_parse::<u32>()?.saturating_sub(1);", "C15", ["C15"], "Nx repeats N-1 times"),
 ("mac-merged-rev", "macros/src/fn_timeline.rs", "        let timeline_creators = config\n            .timelines\n            .iter()\n            .map(|cfg| builder_create_timeline(name, cfg))", "        let timeline_creators = config\n            .timelines\n            .iter()\n            .rev()\n            .map(|cfg| builder_create_timeline(name, cfg))", "C15", ["C15", "C16"], "merged list members in reverse order"),
 ("mac-after-is-duration", "macros/src/fn_timeline.rs", "        quote! { .delay_seconds(#delay_seconds) }", "        quote! { .duration_seconds(#delay_seconds) }", "C15", ["C15"], "`after` feeds the duration"),
 ("mac-accept-unknown-suffix", "macros/src/fn_timeline.rs", "        _ => Err(Error::new(num_lit.span(), \"blah\")),", "        _ => Ok(1.0),", "C15", ["C15"], "unknown unit suffix after `after`/`for` silently read as seconds"),
 ("anm-inline-ignored", "macros/src/fn_animator.rs", "            Ok(quote! { default_values.#field_name = #expr })", "            let _ = expr;\n            Ok(quote! { default_values.#field_name = Default::default() })", "C16", ["C16"], "inline default field values ignored"),
 ("drv-vis", "macros/src/derive_animate.rs", "        #target_visibility struct #builder_name {", "        pub struct #builder_name {", "C17", ["C17"], "keyframe builder always pub"),
 ("drv-target-local", "macros/src/derive_animate.rs", "            type Target = #remote_name;", "            type Target = #remote_name;\n            // (control: identical)", None, [], "(no-op control)"),
 ("drv-start-skip-first", "macros/src/derive_animate.rs", "    let start_value_assignments = target_fields.iter().map(|f| {", "    let start_value_assignments = target_fields.iter().skip(if target_fields.len() > 2 { 1 } else { 0 }).map(|f| {", "C17", ["C17", "C10"], "start_with skips the first field of structs with more than two animated fields"),
 ("bevy-delta-first", "bevy/src/animator.rs", "        let position_secs = animator.timeline_position.as_secs_f32();", "        if animator.state == AnimationState::Playing {\n            animator.timeline_position += time.delta();\n        }\n        let position_secs = animator.timeline_position.as_secs_f32();", "C18", ["C18"], "delta added twice while playing"),
 ("bevy-event-prestate", "bevy/src/animator.rs", "        if state_changed {\n            events.send(AnimationStateChanged::new(entity, animator.state));", "        if state_changed {\n            events.send(AnimationStateChanged::new(entity, if position_secs < timeline_delay { AnimationState::Waiting } else { animator.state }));", "C18", ["C18", "C19"], "event carries Waiting whenever the frame started before the delay"),
 ("bevy-disabled-advances", "bevy/src/animator.rs", "        if !animator.enabled {\n            continue;\n        }", "        if !animator.enabled {\n            if animator.state == AnimationState::Waiting {\n                animator.timeline_position += time.delta();\n            }\n            continue;\n        }", "C18", ["C18"], "a disabled animator keeps consuming its delay"),
 ("sel-no-start-with", "bevy/src/selection.rs", "                next_timeline.start_with(current_values);", "                let _ = current_values;", "C19", ["C19"], "selector forgets start_with (component jumps to the key's 0% values)"),
 ("sel-chain-on-playing", "bevy/src/selection.rs", "        if state != &AnimationState::Ended {\n            continue;\n        }", "        if state != &AnimationState::Ended && state != &AnimationState::Playing {\n            continue;\n        }", "C19", ["C19"], "chain also reacts to Playing events (guarded by the animator-state test)"),
 ("sel-initial-key", "bevy/src/selection.rs", "        AnimationSelector::new(self.timelines, self.initial_key)", "        AnimationSelector::new(self.timelines, K::default())", "C19", ["C19"], "builder ignores initial_key (C19 harness uses the default key: expected miss unless extended)"),
]

def sh(cmd, cwd=None, timeout=3600):
    return subprocess.run(cmd, shell=True, cwd=cwd, capture_output=True, text=True, timeout=timeout)

def main():
    names = sys.argv[1:]
    if sh("git status --short", REPO).stdout.strip():
        print("/repo not clean"); sys.exit(2)
    out = []
    for (name, f, old, new, prop, checks, desc) in M:
        if names and name not in names: continue
        if prop is None: continue
        p = os.path.join(REPO, f)
        src = open(p).read()
        if old not in src:
            print(f"{name}: PATTERN NOT FOUND"); out.append({"name": name, "status": "pattern-not-found"}); continue
        open(p, "w").write(src.replace(old, new, 1))
        try:
            t0 = time.time()
            r = sh("cargo test --workspace --no-fail-fast --offline 2>&1", REPO)
            lines = [l for l in r.stdout.splitlines() if l.startswith("test result")]
            passed = sum(int(l.split()[3]) for l in lines); failed = sum(int(l.split()[5]) for l in lines)
            compiled = bool(lines) and "error: could not compile" not in r.stdout
            res = {}
            if compiled and failed == 0:
                for c in checks:
                    rc = sh(f"./check {c} quick 2>&1", VERIF)
                    sigs = [l.split("signature=")[1].split(" ")[0] for l in rc.stdout.splitlines() if "violation signature=" in l]
                    res[c] = {"rc": rc.returncode, "signatures": sigs[:6]}
            status = "does-not-compile" if not compiled else ("killed-by-suite" if failed else ("caught" if any(v["rc"] == 1 for v in res.values()) else "MISSED"))
            diff = sh("git diff", REPO).stdout
            out.append({"name": name, "property": prop, "file": f, "description": desc, "suite": f"{passed} passed {failed} failed", "status": status, "checks": res, "diff": diff})
            print(f"{name:28s} {prop} suite[{passed}/{failed}] {status:16s} " + " ".join(f"{c}:{'X' if v['rc']==1 else ('-' if v['rc']==0 else '?')}" for c, v in res.items()) + f"  ({time.time()-t0:.0f}s)", flush=True)
        finally:
            sh("git checkout -- .", REPO)
    os.makedirs(os.path.join(VERIF, "seeded"), exist_ok=True)
    prev = []
    pth = os.path.join(VERIF, "seeded", "mutants.json")
    if names and os.path.exists(pth):
        prev = [x for x in json.load(open(pth)) if x["name"] not in names]
    json.dump(prev + out, open(pth, "w"), indent=1)

if __name__ == "__main__":
    main()
