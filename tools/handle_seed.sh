#!/bin/bash
# usage: handle_seed.sh <worktree-name e.g. F03> [extra checks...] : confirm + try own check (+ extras)
N=$1; shift; W=/tmp/seed/$N; ID=C${N:1:2}
echo "### $N ($ID): $(python3 -c "import json;print(json.load(open('$W/_out/meta.json')).get('summary','')[:300])")"
echo "files: $(grep '^diff --git' $W/_out/patch.diff | awk '{print $3}' | tr '\n' ' ')"
/verif/tools/confirm_seed.sh $W
/verif/tools/try_seed.sh $W/_out/patch.diff $ID "$@" | cut -c1-260
