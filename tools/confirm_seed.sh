#!/bin/bash
# usage: confirm_seed.sh <worktree> : confirms (1) suite passes with the change (demo moved aside),
# (2) demo fails with the change, (3) demo passes without it. Prints a summary line.
W=$1; cd "$W" || exit 2
demo=$(ls _out/*.rs | head -1); dname=$(basename "$demo")
dcmd=$(cat _out/demo_cmd.txt | grep -v '^#' | grep cargo | head -1)
loc=$(git status --short | grep -E "\?\? .*$dname|\?\? .*tests/" | awk '{print $2}' | head -1)
# locate demo file in tree
f=$(find . -path ./target -prune -o -name "$dname" -print | grep -v _out | head -1)
[ -z "$f" ] && { echo "demo file not found in tree"; exit 2; }
git apply --check -R _out/patch.diff 2>/dev/null || { echo "patch not applied in worktree?"; }
mv "$f" /tmp/seed/.demo_hold_$$ 
suite=$(cargo test --workspace --no-fail-fast --offline 2>&1 | grep -E "^test result" | awk '{p+=$4; f+=$6} END {print p" passed "f" failed"}')
mv /tmp/seed/.demo_hold_$$ "$f"
with=$(bash -c "$dcmd" 2>&1 | grep -E "^test result" | tail -1)
git apply -R _out/patch.diff
without=$(bash -c "$dcmd" 2>&1 | grep -E "^test result" | tail -1)
git apply _out/patch.diff
echo "SUITE(with change): $suite | DEMO with: $with | DEMO without: $without"
