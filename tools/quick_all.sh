#!/bin/bash
# usage: quick_all.sh [tier] : runs every check on the current /repo tree, prints one line per check
T=${1:-quick}
cd /verif
for i in $(seq -w 1 20); do
  s=$(date +%s); out=$(./check C$i $T 2>&1); rc=$?
  echo "C$i rc=$rc $(( $(date +%s) - s ))s $(echo "$out" | grep -c KNOWN-FINDING) $(echo "$out" | tail -1)"
done
