#!/bin/bash
# usage: keep_seed.sh <seed-name> <worktree> "<confirm line>" "<checks run line>" : stores the seed under /verif/seeded/<name>/
N=$1; W=$2; mkdir -p /verif/seeded/$N
cp $W/_out/patch.diff /verif/seeded/$N/patch.diff
cp $W/_out/*.rs /verif/seeded/$N/ 2>/dev/null
cp $W/_out/demo_cmd.txt /verif/seeded/$N/ 2>/dev/null
python3 - "$N" "$W" "$3" "$4" <<'PY'
import json,sys
n,w,confirm,ran=sys.argv[1:5]
m=json.load(open(f"{w}/_out/meta.json"))
m["confirmed_by_me"]=confirm
m["checks_run_against_it"]=ran
m["base_commit"]="/repo HEAD at seeding time (fix commits + hook applied)"
json.dump(m,open(f"/verif/seeded/{n}/meta.json","w"),indent=1)
PY
