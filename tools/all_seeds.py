#!/usr/bin/env python3
"""Regression run of every kept seed (or, with a regular expression as argument, of the matching ones: their
rows replace the old ones in RESULTS.md) against the current checks: applies seeded/<name>/patch.diff to /repo,
runs the property's own quick check (and, if that does not fire, the checks its meta.json names), reverts.
Writes seeded/RESULTS.md. /repo must be clean. Evidence files are overwritten by mutated runs: re-run the
quick checks on the clean tree afterwards."""
import json, os, re, subprocess, sys, time
V="/verif"; R="/repo"
def sh(c, cwd=None): return subprocess.run(c, shell=True, cwd=cwd, capture_output=True, text=True)
if sh("git status --short", R).stdout.strip(): print("/repo not clean"); sys.exit(2)
flt=re.compile(sys.argv[1]) if len(sys.argv)>1 else None
rows=[]
for name in sorted(os.listdir(f"{V}/seeded")):
    d=f"{V}/seeded/{name}"
    if not os.path.exists(f"{d}/patch.diff"): continue
    if flt and not flt.search(name): continue
    meta=json.load(open(f"{d}/meta.json"))
    own=name[:3]
    others=[c for c in re.findall(r"C\d\d", meta.get("checks_run_against_it","")) if c!=own]
    if sh(f"git apply {d}/patch.diff", R).returncode!=0:
        rows.append((name, own, "PATCH DOES NOT APPLY", "")); sh("git checkout -- .", R); continue
    try:
        res=[]
        t0=time.time()
        for c in [own]+sorted(set(others)):
            r=sh(f"./check {c} quick 2>&1", V)
            sigs=[l.split("signature=")[1].split(" ")[0] for l in r.stdout.splitlines() if "violation signature=" in l]
            res.append((c, r.returncode, sigs[:4]))
            if c==own and r.returncode==1: break
            if c!=own and r.returncode==1: break
        own_rc=res[0][1]
        status="caught by own check" if own_rc==1 else ("caught by "+res[-1][0] if res[-1][1]==1 else "MISSED")
        rows.append((name, own, status, "; ".join(f"{c}: {', '.join(s) if s else ('-' if rc==0 else 'rc='+str(rc))}" for c,rc,s in res)))
        print(f"{name:8s} {status:24s} ({time.time()-t0:.0f}s)", flush=True)
    finally:
        sh("git checkout -- .", R)
if flt and os.path.exists(f"{V}/seeded/RESULTS.md"):
    old={}
    for l in open(f"{V}/seeded/RESULTS.md"):
        c=[x.strip() for x in l.strip().strip("|").split("|")]
        if len(c)==4 and c[0] not in ("seed","---"): old[c[0]]=tuple(c)
    for r in rows: old[r[0]]=r
    rows=[old[k] for k in sorted(old)]
with open(f"{V}/seeded/RESULTS.md","w") as f:
    f.write("# Seeded changes vs. the current checks (tools/all_seeds.py)\n\n| seed | property | result | signatures |\n|---|---|---|---|\n")
    for r in rows: f.write(f"| {r[0]} | {r[1]} | {r[2]} | {r[3]} |\n")
print("MISSED:", [r[0] for r in rows if r[2]=="MISSED"])
