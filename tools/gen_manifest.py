#!/usr/bin/env python3
"""Regenerates /verif/MANIFEST.json from the table below (single source of truth for the interface)."""
import json, os, subprocess
ROOT = os.path.dirname(os.path.dirname(os.path.abspath(__file__)))

E1 = "E1 input-space enumerator (vchecks)"
E2 = "E2 history explorer (vchecks)"
E3 = "E3 program-space enumerator (vmacro)"
E4 = "E4 frame-schedule explorer (vbevy)"

# id -> (engine, technique, level text, level note, design ref)
CHECKS = {
 "C01": (E1, "bounded exhaustive enumeration of keyframe sets x timings x times on the real builder/derive/update path, compared step by step with a reference model (RefTimeScale o RefCss)",
         "Every keyframe list up to the bound (3 quick / 5 thorough keyframes over a 5-point position grid, all property subsets and easing choices), 6 timing configurations, with and without start_with, is built with the real API and evaluated on a dense time grid; each result is compared with an independent f64 reference. Small-scope exhaustiveness is the right level: the defects possible here are neighbour/index/easing-carry errors that need 3-5 keyframes in a particular combination.",
         "values outside the alphabet and more keyframes than the bound are not covered; OutBack inside the reference is the real Easing::calc (C13)", "DESIGN.md 3/C01"),
 "C02": (E1, "bounded exhaustive enumeration with dyadic alphabets so that every keyframe-hit, delay, pass-end and after-end instant is exact in f32",
         "All keyframe lists up to the bound with per-property distinct positions x 13 timing configurations x every exact-hit time in every cycle; integer values compared exactly, floats within 4 ulp, after-end values bit-constant.",
         "dyadic alphabets only for the exact clauses; Easing::calc(0)=0, calc(1)=1 (C13)", "DESIGN.md 3/C02"),
 "C03": (E1, "exhaustive sweep of the f32 time axis (+-1024 ulp quick / 4096 thorough of every phase boundary, of the reported duration and of the configured total for 600 configurations; every finite f32 bit pattern for 64 configurations in thorough) against an exact-arithmetic reference time map",
         "The 1-D time axis is enumerated completely (thorough) so boundary and rounding behaviour of the time map is decided for every representable time of the chosen configurations; exact comparison where f32 arithmetic is exact, +-3 ulp jitter window elsewhere.",
         "configurations outside the grid; where 3 ulp(t) >= cycle/4 only boundedness/terminal consistency is asserted (counted in evidence)", "DESIGN.md 3/C03"),
 "C04": (E2, "explicit-state exploration of all operation histories (advance/set_state) up to depth 6 quick / 7 thorough over all pairs of pool shapes on the real StateAnimator, plus a deviation-bounded pass to horizon 12/14; relational no-jump oracle (exact)",
         "current_values must be bit-identical before and after every set_state in every history; same-state set_state must leave time, pause record and is_ended unchanged (read through the verif-hooks snapshot). Exhaustive small-scope exploration is the right level: the defect class is stale state that needs a particular 3-4 step history.",
         "pool of 19 timeline shapes; dyadic step alphabet in the main passes; depth bound", "DESIGN.md 3/C04"),
 "C05": (E2, "explicit-state exploration of all histories up to depth 5 quick / 6 thorough with a reference animator (RefAnimator) stepped alongside and compared after every operation, internal time and pause record through the verif-hooks snapshot",
         "State, values, time-in-state and the live pause record must equal the reference after every operation of every history; entry values of a blend are observed, so each comparison is local.",
         "same pool/alphabet as C04; tolerance policy of DESIGN 2.3 for values", "DESIGN.md 3/C05"),
 "C06": (E2, "exhaustive enumeration of step partitions: every history vs its normal form (advances merged, zero advances dropped) on the real animator, bit-equal oracle",
         "All histories up to depth 5 quick / 6 thorough over an alphabet with steps 0, 2^-9, 1/4, 1/2, 1, 8 s and state changes: the history and its normal form must end with identical values, state and is_ended; advance(0) is a no-op.",
         "exactly representable steps (the statement's exact clause); non-representable steps are not compared bit-for-bit", "DESIGN.md 3/C06"),
 "C07": (E2, "explicit-state exploration of all histories up to depth 5 quick / 6 thorough with an advance alphabet that lands exactly on, 2^-9 before and after every total duration of the pool; reference end status, stickiness, frozen and terminal values",
         "is_ended must equal the reference (no timeline or time >= max component total, never with an infinite component) after every operation; once ended it stays ended and values stay bit-constant and equal the reference terminal values.",
         "dyadic totals in the main passes; pool of 19 shapes", "DESIGN.md 3/C07"),
 "C08": (E1, "bounded exhaustive enumeration with sentinel targets (bit-identity oracle)",
         "C01 space x three prior target contents (NaN-payload sentinels) plus all merged pairs: every field without a keyframe, the never-keyframed #[animate] field, the non-#[animate] field and the whole struct for empty timelines must be bit-identical after update.",
         "struct shapes other than P: see C17 family; animator histories: E2 explorer", "DESIGN.md 3/C08"),
 "C09": (E1, "explicit-state exploration of the timeline object API: all operation sequences (update/clone/start_with on a timeline and a clone slot) up to depth 4 quick / 5 thorough, memo-table oracle from pristine twins",
         "State = history (stateless DFS on the real objects); every update in every sequence must equal the memo entry for (latest start value, time); metadata never changes.",
         "depth bound; 7 probe times per timing", "DESIGN.md 3/C09"),
 "C10": (E1, "bounded exhaustive enumeration with a twin (relational oracle) plus reference model on the first segment",
         "All keyframe lists up to the bound x 13 timings x 3 start values x 64-per-cycle time grid: t<=delay => exactly v, beyond the second frame / reverse pass / later cycles / after end => bit-equal to the twin without start_with, first segment => reference blend from v.",
         "keyframe count bound; flags at pass boundaries pinned by C03", "DESIGN.md 3/C10"),
 "C11": (E1, "exhaustive enumeration of ALL permutations of insertion order (<=6 quick, <=8 thorough keyframes; a 1/8 grid and a sub-percent grid) against the ascending-order build",
         "Every subset of distinct positions from a 9-point grid x content patterns x every permutation; values and metadata must be bit-identical to the ascending build.",
         "relational; the ascending build is bound to the reference by C01", "DESIGN.md 3/C11"),
 "C12": (E1, "exhaustive enumeration of all lists of 0..4 (quick) / 0..5 (thorough) components from a pool of 11 plus a metadata family over 600 stub components, nested merged timelines and wide lists, relational overlay oracle + exact metadata arithmetic",
         "merged.update == components applied in order (bit-equal), start_with reaches all components, disjoint sets commute, delay=min, duration=max, repeat=largest, cycle only if all agree, wrap-single identity.",
         "pool of 10 component shapes", "DESIGN.md 3/C12"),
 "C13": (E1, "exhaustive sweep of the easing input axis (every 1024th f32 in [0,1] + endpoint neighbourhoods quick; all 1 065 353 217 f32 values thorough) x 29 easings",
         "Endpoints, range, monotonicity, mirrors, Custom pass-through and agreement with the CSS cubic-bezier definition (independent control-point table, Newton/bisection in f64) are decided for every swept input.",
         "definition clause is a recorded known finding for all 28 Bezier easings (parametric evaluation); control-point table trusted", "DESIGN.md 3/C13"),
 "C14": (E1, "exhaustive enumeration: all 65 536 (a,b) pairs for 8-bit types, boundary pairs for wider types, x grid + all f32 x in [0,1] for extreme pairs (thorough)",
         "lerp laws decided for every enumerated (type,a,b,x): endpoints exact, a=b, betweenness, monotone up to float rounding, round-to-nearest of the real interpolation, no panic, glam component-wise.",
         "values not exactly representable in f32 are outside the statement; Quat/DQuat skipped", "DESIGN.md 3/C14"),
 "C15": (E3, "exhaustive enumeration of a bounded timeline! grammar: every sentence expanded in-process by the real macro source and compared structurally with the documented reading (Layer A); a covering subset compiled with the real proc macro and executed against builder twins, ill-formed sentences compiled to confirm rejection (Layer B, conformance of A to real compilation)",
         "All argument orders (with keyframes interleaved) for every subset of arguments, all combinations of literal forms x keyframe positions/bodies in canonical order, all merged lists of 1..3 members; each expansion normalised into a builder program and compared with the reading of the sentence (numbers within 1 ulp of the decimal). Program-space enumeration is the right level for a translation whose defects are per-production.",
         "bounded grammar; literals read as decimals (1 ulp); Layer B is a systematic subset of Layer A", "DESIGN.md 3/C15"),
 "C16": (E3, "exhaustive enumeration of a bounded animator! grammar in-process (Layer A) + compiled covering family whose macro-built and builder-built animators are driven through ALL histories of depth <= 4 (Layer B)",
         "Every default clause form x every list of 0..2 (3) arms over state sets x timelines (incl. default keyframes, merged lists): the expansion is parsed into an animator-builder program and compared with the documented reading; compiled twins must agree bit-for-bit on state, values, is_ended after every operation of every history.",
         "bounded grammar; arm timelines are bound to the builder by C15", "DESIGN.md 3/C16"),
 "C17": (E3, "exhaustive enumeration of struct shapes (1..4 fields quick, up to 6 thorough; 6 field types; all #[animate] subsets; 3 visibilities; local/remote) expanded in-process by the real derive source and checked item by item (Layer A) + compiled shape family with run-time checks (Layer B)",
         "For every shape the generated API must mention exactly the animated field set with the right types (setters, keyframe data, sub-timelines, keyframe_from, values_from, update, start_with, Target, visibility); compiled shapes are exercised: setter presence, keyframe_from, untouched fields, per-field interpolation vs a linear reference, metadata.",
         "field names f0..f5, six numeric types; generics/tuple structs unsupported by the derive are outside the statement", "DESIGN.md 3/C17"),
 "C18": (E4, "exhaustive enumeration of frame-delta schedules (all 4^5 quick / 4^6 thorough schedules over {0, 2^-9, 1/4, 8 s}) x all per-entity control histories (5^5 / 5^6 over nothing/disable/enable/reset/set_timeline) x 12 timings on a real headless bevy App with a hand-driven Time resource, plus a deviation-bounded pass over a longer horizon; per-frame rules R1-R9",
         "Every schedule/history is run on the real plugin; after each frame position, state, component and events of every entity are checked against the nine rules (time conservation, forward-only state, Waiting only before the delay, Ended exactly when over and never for infinite timelines, terminal values when Ended, timeline value while Playing, disabled = inert, one event per state change).",
         "frame-start-position reading of the statement; the real timeline is the evaluator (C01-C03 decide it)", "DESIGN.md 3/C18"),
 "C19": (E4, "exhaustive enumeration of key-assignment histories (5^5 / 5^6) x frame-delta schedules (3^5 / 3^6) x 6 chain maps x 1|2 animated component types on a real headless bevy App, plus a deviation-bounded pass; per-frame rules S1-S6 with a reference selector",
         "For every entity-frame: the key may change only by assignment or by a justified chain move (the governed animator ended on that very key), a justified move must happen in the next frame, a key change is acted on without a jump and restarts the animation blended from the current values, keys without timeline freeze the component, re-assigning the current key restarts nothing.",
         "the order of the two mutually unordered systems is probed per process and the reference is parametrised by it; animator internals are C18's", "DESIGN.md 3/C19"),
 "C20": (E1, "exhaustive enumeration of extreme configurations x boundary times x operations under catch_unwind, in a debug and a release build whose result digests must agree",
         "All u32-boundary repeat counts, extreme cycles/delays, times +-0..2 ulp of every phase boundary, huge advances; no panic, finite, within keyframe range, debug==release.",
         "validity bound: total duration <= f32::MAX", "DESIGN.md 3/C20"),
}


# As-built additions (seed rounds 2-7, DESIGN.md sections 8 and 11); appended to the level text.
ADDENDA = {
 "C01": "Companion families beyond the small scope, all with exact positions/times/values: the f64 property, non-dyadic positions and cycles (jitter windows skipped and counted), WIDE timelines of 2^j+1 keyframes (j up to 16 quick / 17 thorough), STEPPED timelines (tied keyframes inserted out of order), TALL timelines (every subset of a 9-point grid), MICRO segments (keyframes closer than f32::EPSILON), negative zero and negative times; a panic in update is a violation. An INTEGER-RANGE family drives one property of every integer type with keyframe values from the far ends of its range (exact linear interpolation). A Back-easing family drives every integer type 100 <-> 200 with eased fractions outside [0,1].",
 "C02": "Also: every timeline wrapped in MergedTimeline::from (bit-equal), a non-dyadic end companion (terminal value at exactly the reported duration), and the WIDE/TALL families evaluated at exactly every keyframe position. A whole-second companion evaluates every cycle length 1..=64 s at exactly every cycle boundary and half cycle (the end of every forward pass shows 100%). An extreme-values companion puts neighbouring keyframes at opposite ends of the f32 range. Every built-in easing, as default and as keyframe easing, is evaluated at every keyframe position. Keyframes at 16 non-dyadic positions are hit at exactly representable times (forward and reversing). glam vector properties (a different value per lane) are checked at their keyframes.",
 "C03": "As built: 504 configurations (negative delays, cycle 1e-8 .. 1e3) + 96 with repeat counts 2^24-1 .. u32::MAX; three comparison regimes (exact / exact-phase / jitter window); every evaluation is also compared with the reported duration (terminal strictly before it or not terminal strictly after it is a violation); keyframe-less timelines report the same metadata. A merged pair of timelines with neighbouring f32 cycles must report no cycle duration; cycle lengths include 41, 47, 55 s (d * (1/d) < 1). Cycles of 3, 7 and 11 units of the smallest subnormal. Merged with a shorter Times(3) twin the greater repeat is reported. The merged twin starts 4 s later: the greater of the two totals is reported.",
 "C04": "As built: pool of 19 timeline shapes (merged, delayed, keyframe-less, infinite, ...), optional third animated state, de-duplicating BFS keyed on the complete mutable state, and a non-dyadic companion (advances on and 1 ulp around the reported total, all histories to depth 5/6). The pool has a shape with two keyframes tied at 100% (all E2 checks).",
 "C05": "As built: the same 19-shape pool incl. a negative-delay shape; an exact, model-free self-consistency clause (values bit-identical to the state's timeline probed at the animator's own clock), also run on the non-dyadic pool. A state-type twin replays every history on a state enum whose animated states are P(false) / P(true) and on the fieldless enum (identical observations). A huge-step companion takes single steps of 2^64 s .. f32::MAX inside short histories (saturating clock). The negative-delay shape also serves as the initial state's timeline. Every third configuration registers a decoy timeline for X before the real one (the most recent on() wins). One shape carries an easing on its 0% keyframe.",
 "C06": "As built: a very long frame (32768 s) in the alphabet; companions for non-representable steps (0.1 .. 0.7, within float rounding) and for nanosecond-scale steps (1 ns .. 1 us x 512..4096 against one advance of the sum). A huge-steps companion (2^36 s timeline, advance(2^35) against two advance(2^34), up to 2^40 s). The huge-steps companion reaches 2^63, 2^64, 2^65, 2^100 s and f32::MAX. The negative-delay shape may be the initial timeline (histories whose first evaluation is a zero-length advance excepted). The normal form also removes detours from X/Y into the un-animated U1 and straight back. An absorbed-cycle companion: timelines whose whole active part lies below half an ulp of the delay (reported total == delay), every sequence of up to 4 steps from {0, D/4, D/2, D} against one advance of the sum, bit-equal, advance(0) a no-op on both sides.",
 "C07": "As built: 19-shape pool incl. keyframe-less timelines and merged components with different repeat counts; non-dyadic companion against the reported duration. The state-type twin of C05 is run here too. An over-on-entry companion enters states whose timeline has a total duration <= 0. An exact-landing companion delivers exactly the total duration for None/Times 0..3 x reverse x delay x cycle. The over-on-entry companion reports a panic as a violation.",
 "C08": "As built: also a second struct with attribute noise (P2) and a remote proxy with markers on some fields only (R3Proxy), both driven through keyframe_from and setters. The animator family starts in each of the four states and tracks the state the caller configured / set.",
 "C09": "As built: plain and merged timeline objects through one generic DFS; the before-start time of undelayed objects is negative zero; one probe time lies exactly on a keyframe position, one exactly on the end of the first cycle (the hold-at-100% instant, reachable after a time inside the second cycle); the thorough tier explores depth 5 over the six other times and depth 4 over all seven.",
 "C10": "As built: 4 start values (far away, Default, equal to the 0% value, large odd numbers f32 still holds exactly), every other case substitutes twice. Every third started timeline is also cloned AFTER start_with (clone, clone_from into an unstarted and into a differently started object): bit-equal to the original over the whole grid.",
 "C11": "As built: thorough covers all 9! orders of all 9 positions; a grid with positions outside [0,1]; WIDE timelines (up to 65 537 keyframes) inserted in six structured orders. Timings with a huge delay/cycle ratio (delay 65536 / cycle 3).",
 "C12": "As built: 600 stub components (negative delays and totals, near-equal cycles, Times(u32::MAX)), nested merged timelines, wide lists of up to 1025 components. MergedTimeline::of is fed from a Vec, a filtered iterator and a from_fn iterator in rotation. clone_from runs under catch_unwind.",
 "C13": "As built: 1296 user-built CubicBezierEasing curves, custom easings composed from built-ins, and timelines in which two different custom easings follow one another.",
 "C15": "As built: literal alphabet includes 16_777_217x, 4294967295x and zero-length cycles (metadata only). Keyframe bodies include one whose fields are not in alphabetical order. Negative delay literals (after -0.5s, after -250ms). Long sentences of 31..65 keyframes. Five ill-formed sentences are members of a bracketed list.",
 "C16": "As built: arm pool includes keyframe-less timelines and members of one bracketed list with identical timing that share a property. The pool also has a keyword and a percent keyframe at the same position (0% {..} from {..}; to {..} 100% {..}). One arm writes its easing, delay and duration after the keyframes.",
 "C17": "As built: attribute noise (doc comments, #[allow], #[cfg]) around markers, module-qualified remote paths, 48 wide structs (8..33 fields), and in every compiled shape a stepped animation of 80 keyframes and setter-override checks. Every compiled shape also evaluates a negative-delay timeline at negative times. A field first keyed at 50% with its own easing must have a lead-in eased by the default easing. keyframe_from is also fed a source holding zeros. A keyframe with an easing that does not define a field leaves that field alone. repeat(Times(0)) is reported as Times(0). Every other local Layer B struct has a hand-written non-zero Default. A reversing three-keyframe timeline rests on its original 0% keyframe after the end; every shape runs under catch_unwind.",
 "C18": "As built: 16 timeline configurations (12 plain, 4 MergedTimelines), a non-dyadic pass, and a presence pass in which the target component is detached / attached between frames. Four more non-dyadic timings whose delay + total rounds in f32. Every world also holds enabled animators without a timeline (with and without a target) before, inside and after each batch. A seek pass applies the documented reset() + timeline_position assignment. reset() must leave position 0 and state None; seeks made while disabled. An animator spawned without a timeline whose position is set before its first set_timeline keeps that position.",
 "C19": "As built: both system orders (probed per process), initial_key / reset_after, a disabled pass (animator disabled for a window of frames) and a mirror pass (the other animator on the entity changes state in every frame; C governed / Q foreign and Q governed / C foreign). A hot-swap pass replaces the governed animator's timeline (Animator::set_timeline) before frame 1, 2 or 3. Both relative orders of chain_animations and select_animation are explored in every run (worker processes, re-executed until each order has turned up); finding F10 (a foreign Ended moves the key while the governed animator rests in Ended) is listed in known_findings.json. The mirror pass demands that the governed animator of either component type has been started after frame 0. A selected animation that ends without having been seen Playing leaves the component on its terminal values.",
 "C20": "As built: 13 keyframe sets incl. extreme finite values, 257/513/300 keyframes and keyframes a subnormal distance apart; cycles up to f32::MAX; the empty merged timeline. Times include -0.0. A settings-omitted family leaves every subset of duration/delay/repeat/reverse to the builder's defaults. Delays include -1, -1e30, -1e32 and -f32::MAX (F11); clone_from between merged timelines of 0..3 components. Every built timeline is also formatted with {:?}.",
}

def main():
    commits = subprocess.run(["git", "-C", "/repo", "log", "--format=%h %s"], capture_output=True, text=True).stdout.splitlines()
    hook_commits = [c.split()[0] for c in commits if c.split(" ", 1)[1].startswith("verif-hooks")]
    ids = [f"C{i:02d}" for i in range(1, 21)]
    checks = []
    for i in ids:
        if i not in CHECKS: continue
        eng, tech, text, note, ref = CHECKS[i]
        checks.append({
            "property_id": i,
            "quick_cmd": f"./check {i} quick",
            "thorough_cmd": f"./check {i} thorough",
            "evidence_file": f"/verif/evidence/{i}.json",
            "replay_cmd_template": f"./check {i} --replay {{path}}",
            "engine": eng,
            "level_claimed": {"category": "model_checking", "text": text + (" " + ADDENDA[i] if i in ADDENDA else ""), "design_ref": ref},
            "level_note": note,
            "technique": tech,
        })
    m = {
        "version": 1,
        "setup_cmd": "./setup.sh",
        "hooks": {
            "guard": "verif-hooks",
            "enable": "cargo feature `verif-hooks` on mina_core (forwarded by mina); the harness crates depend on /repo by path with features=[\"glam\",\"verif-hooks\"], so every check rebuilds /repo's working tree with hooks on",
            "baseline_off_cmd": "cd /repo && cargo test --workspace --no-fail-fast --offline",
            "source_commits": hook_commits,
            "add_only": True,
        },
        "engines": [
            {"name": E1, "path": "harness/vchecks", "serves_properties": [i for i in ids if i in CHECKS and CHECKS[i][0] == E1], "kind_free_text": "bounded exhaustive enumeration of inputs/configurations on the real code against reference models in harness/vlib"},
            {"name": E2, "path": "harness/vchecks", "serves_properties": [i for i in ids if i in CHECKS and CHECKS[i][0] == E2], "kind_free_text": "explicit-state exploration of operation histories on the real StateAnimator, reference model stepped alongside"},
            {"name": E3, "path": "harness/vmacro", "serves_properties": [i for i in ids if i in CHECKS and CHECKS[i][0] == E3], "kind_free_text": "exhaustive enumeration of bounded macro grammars: in-process expansion of the real macro sources + compiled conformance family"},
            {"name": E4, "path": "harness/vbevy", "serves_properties": [i for i in ids if i in CHECKS and CHECKS[i][0] == E4], "kind_free_text": "exhaustive enumeration of frame-delta schedules x control histories on a headless bevy App with hand-driven Time"},
        ],
        "checks": checks,
        "notes": "Exit codes: 0 held (KNOWN-FINDING lines allowed), 1 VIOLATION, 2 machinery failure. known_findings.json lists recorded defects (exact signatures) and fixed ones.",
        "not_applicable": [{"property_id": i, "reason": "check not built yet (work in progress; DESIGN.md section 7 build order)"} for i in ids if i not in CHECKS],
    }
    json.dump(m, open(os.path.join(ROOT, "MANIFEST.json"), "w"), indent=1)
    print("checks:", len(checks), "not yet:", len(m["not_applicable"]))

if __name__ == "__main__":
    main()
