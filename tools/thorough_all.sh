#!/bin/bash
# runs every thorough tier on the current /repo tree; log in target/thorough_all.log
cd /verif; : > target/thorough_all.log
for i in $(seq -w 1 20); do
  s=$(date +%s); out=$(./check C$i thorough 2>&1); rc=$?
  echo "C$i rc=$rc $(( $(date +%s) - s ))s $(echo "$out" | grep -c KNOWN-FINDING) $(echo "$out" | tail -1)" >> target/thorough_all.log
done
