//! Finding F10 (property C19) as a plain test of the public API, without the explorer.
//!
//! Run it from a checkout of focustense/mina:
//!     cp f10_demo.rs <repo>/bevy/tests/f10_demo.rs
//!     cd <repo> && for i in 1 2 3 4 5 6 7 8; do cargo test -p bevy_mina --offline --test f10_demo -- --nocapture; done
//! `chain_animations` and `select_animation` are mutually unordered; bevy fixes their order when it builds the
//! schedule, differently from process to process. The defect needs select BEFORE chain; in a process with the
//! other order the test says so and passes vacuously (hence the loop above: about every other run fails).

use bevy::prelude::*;
use bevy_mina::prelude::*;
use mina::prelude::*;
use std::time::{Duration, Instant};

#[derive(Animate, Component, Clone, Debug, Default, PartialEq)]
struct C {
    x: f32,
}

#[derive(Animate, Component, Clone, Debug, Default, PartialEq)]
struct Q {
    w: f32,
}

#[derive(Clone, Copy, Debug, Default, PartialEq, Eq, Hash, Reflect)]
enum K {
    #[default]
    A,
    B,
}

struct Driver {
    app: App,
    base: Instant,
    elapsed: Duration,
}

impl Driver {
    fn new() -> Driver {
        let mut app = App::new();
        let base = Instant::now();
        let mut time = Time::new(base);
        time.update_with_instant(base);
        app.insert_resource(time);
        app.add_plugins((AnimationPlugin::<C>::new(), AnimationPlugin::<Q>::new()));
        app.register_animation_key::<C, K>();
        Driver { app, base, elapsed: Duration::ZERO }
    }
    fn frame(&mut self, ms: u64) {
        self.elapsed += Duration::from_millis(ms);
        let now = self.base + self.elapsed;
        self.app.world.resource_mut::<Time>().update_with_instant(now);
        self.app.update();
    }
}

fn c_timeline(seconds: f32, from: f32, to: f32) -> CTimeline {
    C::timeline().duration_seconds(seconds).keyframe(C::keyframe(0.0).x(from)).keyframe(C::keyframe(1.0).x(to)).build()
}

fn spawn(d: &mut Driver) -> Entity {
    let selector = AnimationSelectorBuilder::<K, C>::new().add(K::A, c_timeline(0.5, 10.0, 20.0)).add(K::B, c_timeline(0.5, 100.0, 200.0)).build();
    let chain = AnimationChainBuilder::<K>::new().add(K::A, K::B).build();
    let q = Q::timeline().duration_seconds(0.5).keyframe(Q::keyframe(0.0).w(0.0)).keyframe(Q::keyframe(1.0).w(1.0)).build();
    d.app.world.spawn((C::default(), Animator::<C>::new(), selector, chain, Q::default(), Animator::<Q>::with_timeline(q))).id()
}

/// true if chain_animations runs before select_animation in this process
fn chain_first() -> bool {
    let mut d = Driver::new();
    let e = spawn(&mut d);
    d.app.world.entity_mut(e).remove::<Animator<Q>>();
    for _ in 0..4 {
        d.frame(250);
    }
    // A (0.5 s) ended in frame 2, the chain moved the key in frame 3; if select saw the new key in the same frame
    // the animator has been restarted
    d.app.world.get::<Animator<C>>(e).unwrap().state() != AnimationState::Ended
}

#[test]
fn ended_of_another_animator_does_not_advance_the_chain() {
    if chain_first() {
        println!("this process runs chain_animations before select_animation: F10 does not show, run again");
        return;
    }
    println!("this process runs select_animation before chain_animations");
    let mut d = Driver::new();
    let e = spawn(&mut d);
    let key = |d: &Driver| d.app.world.get::<AnimationSelector<K, C>>(e).unwrap().timeline_key;
    d.frame(250); // A starts playing, Q starts playing
    // the user hot-swaps the governed animator's timeline for a shorter one (documented: state and position carry over)
    d.app.world.get_mut::<Animator<C>>(e).unwrap().set_timeline(c_timeline(0.25, 1000.0, 2000.0));
    d.frame(0); // the governed animator ends (position 0.25 s >= 0.25 s)
    assert_eq!(d.app.world.get::<Animator<C>>(e).unwrap().state(), AnimationState::Ended);
    d.frame(250); // the chain advances A -> B; select ran earlier in this frame and has not seen B
    assert_eq!(key(&d), K::B);
    // the user puts the selector back on A before select has acted on B
    d.app.world.get_mut::<AnimationSelector<K, C>>(e).unwrap().timeline_key = K::A;
    d.frame(250); // in this frame only the OTHER animator (Q, 0.5 s) ends
    assert_eq!(d.app.world.get::<Animator<Q>>(e).unwrap().state(), AnimationState::Ended);
    assert_eq!(key(&d), K::A, "the Ended of the other animator on the entity advanced the chain again");
}
